"""C12 - fast mode reproduces the normal simulation when fills are unambiguous."""
from __future__ import annotations

import ast
import os
from fractions import Fraction as F
from concurrent.futures import ProcessPoolExecutor

from vlib.absint import Interp, Obj, Arr, Arr2, FuncV, Frame, explore, R, num, Unknown, NotInFragment
from vlib.loader import Repo, AnalysisError, norm
from vlib.orderdom import weak_orderings, embeddings, describe
from vlib import world as W
from vlib import simworld as S
from vlib import simloops as SL
from vlib.affine import to_poly
from vlib.poly import Poly

BT = W.BT
MIN = 60000
SYMS = ["o1", "c1", "h1", "l1", "c2", "h2", "l2", "p"]
CONS = [("l1", "<=", "o1"), ("l1", "<=", "c1"), ("o1", "<=", "h1"), ("c1", "<=", "h1"),
        ("l2", "<=", "c1"), ("l2", "<=", "c2"), ("c1", "<=", "h2"), ("c2", "<=", "h2")]
T1 = 1_600_000_020_000 // MIN * MIN


def A(n):
    return R.atom(n)


def two_candles():
    c1 = Arr([num(T1), A("o1"), A("c1"), A("h1"), A("l1"), A("v1")])
    c2 = Arr([num(T1 + MIN), A("c1"), A("c2"), A("h2"), A("l2"), A("v2")])     # contiguous: open = previous close
    return c1, c2


def run_mode(repo, mode, samples, prices=("p",), market_reaction=False, stale_final=False):
    """abstract execution of one 2-minute span with resting orders at the given price atoms; returns fill events (price, time).
    market_reaction: the hook of the first fill submits a MARKET order at the price atom `m` (as Sandbox.market_order does)."""
    # stale_final: the active list still holds an order that became final at the end of the previous chunk (e.g. a market entry
    # executed by the flush after the strategies) - a twin of the first order, already cancelled
    case = S.SimCase(list(prices) + ([prices[0]] if stale_final else []), inactive=[len(prices)] if stale_final else None)

    def mk(dec):
        it = S.build(repo, case, samples, dec)
        st = it.world["store"]
        app = st.attrs["app"]
        pos = it.world["position"]
        # record the simulated clock at the fill
        orig = pos.attrs["_on_executed_order"]

        state = {"done": False}

        def hook(i, a, k):
            i.event("fill_at", a[0].attrs["price"], app.attrs.get("time"))
            r = i.call(orig, a, k)
            if market_reaction and state["done"] and a[0].name == "MKT" and not state.get("second"):
                # second-level reaction: the hook of the market order's own execution rests a LIMIT order at the price p again
                state["second"] = True
                l2 = W.make_order(repo, "L2", W.enum_value(repo, "sides", "BUY"), W.enum_value(repo, "order_types", "LIMIT"), R.atom("qr"), R.atom("p"),
                                  status=W.enum_value(repo, "order_statuses", "ACTIVE"))
                i.call(i.getattr(i.world["orders_state"], "add_order"), [l2], {})
            if market_reaction and not state["done"]:
                state["done"] = True
                mo = W.make_order(repo, "MKT", W.enum_value(repo, "sides", "BUY"), W.enum_value(repo, "order_types", "MARKET"), R.atom("qr"), R.atom("m"),
                                  status=W.enum_value(repo, "order_statuses", "ACTIVE"))
                os_ = i.world["orders_state"]
                i.call(i.getattr(os_, "add_order"), [mo], {})
                os_.attrs["to_execute"].append(mo)
            return r
        W.bind(pos, "_on_executed_order", hook)
        it.stubs[f"{W.HELPERS}:is_backtesting"] = lambda i, a, k: True
        mod = repo.module(BT)
        c1, c2 = two_candles()
        if mode == "normal":
            fn = repo.func(BT, "_simulate_price_change_effect")

            def thunk(it):
                for k, c in enumerate((c1, c2)):
                    app.attrs["time"] = c.items[0] + num(MIN)
                    it.call(FuncV(fn, mod, qual="_simulate_price_change_effect"), [c, "Sandbox", "BTC-USDT"], {})
                    if k == 0:
                        # the step simulator prunes the active list after every minute (the strategy of a 2m+ route is not due yet)
                        # and then executes the market orders that are waiting
                        it.call(it.getattr(it.world["orders_state"], "update_active_orders"), ["Sandbox", "BTC-USDT"], {})
                        it.call(it.getattr(it.world["orders_state"], "execute_pending_market_orders"), [], {})
            return it, thunk
        fn = repo.func(BT, "_simulate_price_change_effect_multiple_candles")
        return it, lambda it: it.call(FuncV(fn, mod, qual="_simulate_price_change_effect_multiple_candles"), [Arr2([c1, c2]), "Sandbox", "BTC-USDT"], {})
    return explore(mk, 64)


def _first_minute_stored(o, s):
    """what a fill hook in the SECOND minute of the span finds in the 1m store: has the whole first minute been stored by then?
    None: no fill in the second minute"""
    stored = False
    seen = None
    whole = [R.atom(x) for x in ("o1", "c1", "h1", "l1", "v1")]
    for e in o.events:
        if e[0] == "add_candle" and e[2] == "1m" and isinstance(e[1], tuple) and len(e[1]) > 5:
            ts = e[1][0]
            if isinstance(ts, R) and ts.is_const() and ts.const_value() == T1:
                # the minute as it is left in the store (the last write wins): the WHOLE input candle - not the partial candle of a
                # fill, not what was left of the candle after the fill
                stored = all(isinstance(x, R) and x.same(y) for x, y in zip(e[1][1:6], whole))
        elif e[0] == "add_multiple_1m":
            stored = True
        elif e[0] == "fill_at" and isinstance(e[2], R) and e[2].is_const() and e[2].const_value() == T1 + 2 * MIN:
            seen = stored if seen is None else (seen and stored)
    return seen


def _work(args):
    root, ranks = args
    repo = Repo(root)
    out = []
    for rank in ranks:
        samples = embeddings(rank, 2)
        for s in samples:
            s.update({"v1": F(2), "v2": F(3), "cp0": F(1), "now": F(T1), "t_created": F(0), "q0": F(1), "q1": F(1), "qr": F(1)})
        res = {}
        err = None
        for mode in ("normal", "fast"):
            try:
                outs = run_mode(repo, mode, samples, stale_final=True)
            except AnalysisError as e:
                err = f"{mode}: {e}"
                break
            fills = []
            for o in outs:
                s = o.interp.samples[0] if o.interp.samples else samples[0]
                f = [(o.interp.numeric(e[1], s), o.interp.numeric(e[2], s) if isinstance(e[2], R) else None) for e in o.events if e[0] == "fill_at"]
                active = tuple(x.name for x in o.interp.world["orders_state"].attrs["active_storage"][S.KEY])
                fills.append((o.kind, tuple(f), o.interp.numeric(o.interp.world["position"].attrs["current_price"], s)
                              if isinstance(o.interp.world["position"].attrs.get("current_price"), R) else None, active, _first_minute_stored(o, s)))
            res[mode] = sorted(set(fills), key=repr)
        out.append((rank, res, err))
    return out


def check_equivalence(repo, rep, tier):
    rid = "C12-R4"
    rep.rule(rid, "one trading-candle span of two contiguous 1m candles with one resting order, for every weak ordering of "
                  "(o1,c1,h1,l1,c2,h2,l2,p): the fast matching function fills the order iff the normal per-minute matching does, at the "
                  "same price and with the same simulated fill time (end of the fill minute), leaves the same current price and the same "
                  "list of active orders for the strategy cycle that follows (the step simulator prunes it after every minute)")
    ranks = list(weak_orderings(SYMS, CONS))
    if tier == "quick":
        ranks = ranks[::4]
    chunk = max(1, len(ranks) // 64)
    jobs = [(repo.root, ranks[i:i + chunk]) for i in range(0, len(ranks), chunk)]
    n = 0
    with ProcessPoolExecutor(max_workers=min(16, os.cpu_count() or 1)) as ex:
        for res in ex.map(_work, jobs):
            for rank, modes, err in res:
                desc = describe(rank)
                if err:
                    raise AnalysisError(err)
                n += 1
                a, b = modes["normal"], modes["fast"]
                if a != b:
                    na = [x[1] for x in a]
                    nb = [x[1] for x in b]
                    what = "fills (price, time)" if na != nb else ("final current price" if [x[2] for x in a] != [x[2] for x in b] else
                                                                    "orders still listed as active when the strategy runs (an order filled in an earlier minute of the span must have been pruned)"
                                                                    if [x[3] for x in a] != [x[3] for x in b] else
                                                                    "1m candles a fill hook in the second minute finds in the store (last element: has the whole first minute been stored by then?)")
                    rep.violation(rid, "span|" + ("fills" if na != nb else ("current-price" if [x[2] for x in a] != [x[2] for x in b] else "active-list" if [x[3] for x in a] != [x[3] for x in b] else "stored-minutes")),
                                  f"normal and fast matching disagree on the {what} for {desc}: normal {a} vs fast {b}", {"ordering": desc})
                rep.instance(rid, desc, {"ordering": desc, "normal": repr(a), "fast": repr(b)} if n % 400 == 1 else None)
    rep.extra["orderings"] = n
    rep.floor(rid, 1500)


def check_fast_orders_and_gaps(repo, rep, tier):
    rid = "C12-R4b"
    rep.rule(rid, "a gap inside a chunk: /repo's _simulate_new_candles on a two-minute chunk whose second candle opens away from the "
                  "previous close and the normal per-minute protocol (_get_fixed_jumped_candle, then _simulate_price_change_effect) are "
                  "both executed abstractly with one and two resting orders for every weak ordering of (previous close, o2, c2, h2, "
                  "l2, p[, r]): same fills in the same order, at the same prices and simulated times")
    from props import fastgap
    n = 0
    for desc, s, res in fastgap.run_all(repo, tier):
        n += 1
        if res["normal"] != res["fast"]:
            rep.violation(rid, "gap-in-chunk|fills", f"normal and fast simulator disagree on a chunk with a gap inside for {desc}: normal {res['normal']} vs fast {res['fast']}", {"ordering": desc})
        rep.instance(rid, desc, {"ordering": desc, "normal": repr(res["normal"]), "fast": repr(res["fast"])} if n % 300 == 1 else None)
    rep.floor(rid, 500)
    rid = "C12-R4c"
    rep.rule(rid, "several touched orders in one minute: the fast chunk matcher on a one-candle chunk fills two / three resting orders and a "
                  "reaction order in the order of the continuous price path (which the normal matcher follows: C08-R2), for every weak "
                  "ordering and both storage orders")
    from props import matchloop
    n = 0
    for desc, viols, sample in matchloop.run_all(repo, tier, fast=True):
        n += 1
        for r, key, msg in viols:
            kind = key.split("|")[1]
            if kind in ("order", "unfilled", "spurious"):
                rep.violation(rid, f"fast-one-candle|{kind}", "fast simulator, one-candle chunk (the normal simulator follows the path): " + msg, {"ordering": desc})
        rep.instance(rid, desc, sample if n % 500 == 1 else None)
    rep.floor(rid, 1500)


def _work_mkt(args):
    root, ranks = args
    repo = Repo(root)
    out = []
    for rank in ranks:
        samples = embeddings(rank, 2)
        for s in samples:
            s.update({"v1": F(2), "v2": F(3), "cp0": F(1), "now": F(T1), "t_created": F(0), "q0": F(1), "q1": F(1), "qr": F(1)})
        res, err = {}, None
        for mode in ("normal", "fast"):
            try:
                outs = run_mode(repo, mode, samples, market_reaction=True)
            except AnalysisError as e:
                err = f"{mode}: {e}"
                break
            runs = []
            for o in outs:
                s = o.interp.samples[0] if o.interp.samples else samples[0]
                f = tuple((o.interp.numeric(e[1], s), o.interp.numeric(e[2], s) if isinstance(e[2], R) else None) for e in o.events if e[0] == "fill_at")
                act = W.enum_value(repo, "order_statuses", "ACTIVE")
                pend = tuple(x.name for x in o.interp.world["orders_state"].attrs["to_execute"] if x.attrs.get("status") == act)   # (a queued order that already filled is a no-op)
                # ... and what a hook in the second minute (the market order's own fill, a second-level reaction) finds of the first
                # minute in the 1m store: the whole input candle, in both simulators
                runs.append((o.kind, f, pend, _first_minute_stored(o, s)))
            res[mode] = sorted(set(runs), key=repr)
        out.append((rank, res, err))
    return out


def check_hook_market_orders(repo, rep, tier, rid="C12-R4d"):
    rep.rule(rid, "a MARKET order submitted by the hook of a fill inside a chunk (e.g. liquidate(), an exit within 0.015 % of the price) is "
                  "executed at the end of THAT minute, as in the normal simulator, not after the later candles of the chunk: both matchers "
                  "are executed abstractly on a two-minute span with one resting order and a hook-submitted market order at the price m, for "
                  "every weak ordering of (o1,c1,h1,l1,c2,h2,l2,p,m): same fills (price, simulated time) and the same orders still waiting; the "
                  "hook of that market order rests a further LIMIT order, which the following minute of the chunk must see")
    ranks = list(weak_orderings(SYMS + ["m"], CONS))
    if tier == "quick":
        ranks = ranks[::16]
    chunk = max(1, len(ranks) // 64)
    jobs = [(repo.root, ranks[i:i + chunk]) for i in range(0, len(ranks), chunk)]
    n = 0
    with ProcessPoolExecutor(max_workers=min(16, os.cpu_count() or 1)) as ex:
        for res in ex.map(_work_mkt, jobs):
            for rank, modes, err in res:
                if err:
                    raise AnalysisError(err)
                n += 1
                desc = describe(rank)
                if modes["normal"] != modes["fast"]:
                    rep.violation(rid, "span|hook-market-order", f"a market order submitted from a fill hook is handled differently by the two simulators for {desc}: "
                                                                  f"normal {modes['normal']} vs fast {modes['fast']} (fills as (price, time), then the orders still waiting)", {"ordering": desc})
                rep.instance(rid, desc, {"ordering": desc, "normal": repr(modes["normal"]), "fast": repr(modes["fast"])} if n % 300 == 1 else None)
    rep.floor(rid, 500)


def check_chunk_step(repo, rep, rid="C12-R3", need="gcd-of-all"):
    """need = 'gcd-of-all': the step must equal the gcd of all route timeframes (C07/C12: one stored candle per route and chunk);
    need = 'divides-trading': the step must divide every trading-route timeframe (C01: no chunk straddles a trading-candle boundary)"""
    if need == "gcd-of-all":
        rep.rule(rid, "_calculate_minimum_candle_step interpreted for route sets (trading + data routes): the chunk length is the gcd of "
                      "the minutes of ALL routes and of one day, so every route's candle boundary and every day boundary (equity "
                      "sample) is a chunk boundary")
    else:
        rep.rule(rid, "_calculate_minimum_candle_step interpreted for route sets (trading + data routes): the chunk length divides every "
                      "trading-route timeframe, so no chunk of the fast simulator straddles a trading-candle boundary (its hooks would "
                      "otherwise run with candles of the other symbols beyond that boundary already stored)")
    import math

    def gcd_reduce(it, args, kw):
        xs = [int(x.const_value()) for x in it.iterate(args[0])]
        g = 0
        for x in xs:
            g = math.gcd(g, x)
        return num(g)
    # (trading routes, data routes): larger, smaller and non-multiple data timeframes
    sets = [(("1m",), ()), (("5m",), ()), (("5m",), ("15m",)), (("3m",), ("5m",)), (("45m",), ("1h",)), (("15m",), ("1h", "4h")), (("1h",), ("4h",)),
            (("30m",), ("45m",)), (("2h",), ("3h",)), (("15m",), ("5m",)), (("1h",), ("45m",)), (("4h",), ("1h", "15m")),
            (("5m", "15m"), ()), (("3m", "5m"), ("15m",)), (("15m", "1h"), ("5m",)),
            # at most one day (the equity is sampled at every day boundary, C16): timeframes above a day are multiples of a day
            (("1D",), ()), (("3D",), ()), (("1W",), ("1D",)), (("4h",), ("3D",))]
    tf = {"1m": 1, "3m": 3, "5m": 5, "15m": 15, "30m": 30, "45m": 45, "1h": 60, "2h": 120, "3h": 180, "4h": 240, "1D": 1440, "3D": 4320, "1W": 10080}
    for trading, data in sets:
        rs = trading + data

        def mk(dec):
            it = Interp(repo, stubs=W.base_stubs(), decisions=dec, ext_stubs={"numpy.gcd.reduce": gcd_reduce})
            routes = [{"exchange": "Sandbox", "symbol": "BTC-USDT", "timeframe": t} for t in rs]
            it.overrides["jesse/routes/__init__.py:router"] = Obj("RouterClass", name="router", attrs={
                "all_formatted_routes": routes, "formatted_routes": routes[:len(trading)], "formatted_data_routes": routes[len(trading):]}, open_world=True)
            fn = repo.func(BT, "_calculate_minimum_candle_step")
            return it, lambda it: it.call(FuncV(fn, repo.module(BT), qual="_calculate_minimum_candle_step"), [], {})
        for out in explore(mk, 8):
            want = 1440 if need == "gcd-of-all" else 0
            for t in rs:
                want = math.gcd(want, tf[t])
            v = out.value
            if isinstance(v, Unknown):
                raise AnalysisError(f"_calculate_minimum_candle_step is outside the interpreted fragment for routes {rs}: {v!r}")
            isint = out.kind == "return" and isinstance(v, R) and v.is_const() and v.const_value().denominator == 1 and v.const_value() >= 1
            if need == "gcd-of-all":
                if not (isint and v.const_value() == want):
                    rep.violation(rid, "chunk-step", f"chunk step for trading routes {trading} + data routes {data} is {v!r}, expected gcd = {want}")
            else:
                if not isint or any(tf[t] % int(v.const_value()) for t in trading):
                    rep.violation(rid, "chunk-step", f"chunk step for trading routes {trading} + data routes {data} is {v!r}: it does not divide every trading timeframe, so a chunk straddles a trading-candle boundary")
            rep.instance(rid, "+".join(trading) + "|" + "+".join(data), {"trading": trading, "data": data, "step": repr(v)})
    rep.floor(rid, 12)


def check_chunks_partition(repo, rep, rid="C12-R6"):
    """the fast simulator interpreted whole (engine E10) for every session length 1..13 with chunk lengths 1, 3 and 5: the chunks
    handed to the matcher partition [0, length) - consecutive, none reaching beyond the session, the trailing one shortened - and
    the strategies execute exactly after the minutes at which their candle closes (a full step for a shortened tail would run them)"""
    from props import sessions as S
    rep.rule(rid, "fast simulator interpreted whole for session lengths 1..13 and 1m / 3m / 5m routes (chunk = timeframe; matcher, strategies "
                  "and order store recorded): the chunks handed to the matcher are consecutive, start at minute 0 and end exactly at the "
                  "session length (a trailing chunk is shortened, never read past the input), and after each chunk the strategy runs iff "
                  "its candle closed at the chunk's last minute")
    S.check_cover(repo, rep, rid, cfgs=S.PARTITION_SESSIONS, sims=("_skip_simulator",))
    S.check_protocol(repo, rep, rid, cfgs=S.PARTITION_SESSIONS, sims=("_skip_simulator",))


def check_structure(repo, rep, tier="quick"):
    from props import sessions as S
    rid = "C12-R1"
    rep.rule(rid, "phase agreement of the two simulators: both simulator functions are interpreted whole on mini sessions (one / two "
                  "symbols, a data symbol, 1m / 3m / 5m / 15m routes, tails shorter than a chunk; matcher, strategies, order store, "
                  "equity sampler recorded): same prologue; after every minute the fast simulator steps over, and at every chunk end, it "
                  "does exactly what the normal simulator does after that minute [strategies whose candle closed -> prune the route's "
                  "active orders -> flush market orders]; the minutes it leaves to its chunk matcher are minutes after which the normal "
                  "simulator executes no strategy; same epilogue")
    S.check_same_protocol(repo, rep, rid, cfgs=S.for_tier(tier))


def check_fast_time(repo, rep, rid="C12-R5"):
    rep.rule(rid, "fast matching: the simulated clock is set to the end of the fill minute before order.execute(), and to the end of "
                  "the chunk after matching (trace rule)")
    from vlib.traces import Tracer, Cfg, RAISE
    fn = repo.func(BT, "_simulate_price_change_effect_multiple_candles")
    from vlib.traces import make_inliner
    inl = make_inliner(repo, lambda label: "." not in label.rstrip("()") and SL.last(label) not in ("_update_all_routes_a_partial_candle", "_get_executing_orders",
                                                                                                      "_sort_execution_orders", "_check_for_liquidations"))
    cfg = Cfg(call=lambda label, node: ("call", "execute") if label.endswith(".execute") and isinstance(node.func, ast.Attribute) and not node.args else None,
              store=lambda label, node: ("store", "time") if label == "store.app.time" else None, inline=inl, max_depth=2, loop_unroll=1)
    n = 0
    for evs, ex in Tracer(repo, cfg).block(fn.body, (repo.module(BT), None), 0):
        if ex == RAISE:
            continue
        seq = [e[1] for e in evs if e[0] in ("call", "store")]
        for i, x in enumerate(seq):
            if x == "execute" and (i == 0 or seq[i - 1] != "time"):
                rep.violation(rid, "fast|time-before-execute", f"fast matching executes an order without setting the clock to the fill minute first: {seq}")
        if not seq or seq[-1] != "time":
            rep.violation(rid, "fast|time-at-chunk-end", f"fast matching does not set the clock at the end of the chunk: {seq}")
        n += 1
        rep.instance(rid, " ".join(seq))
    rep.floor(rid, 2)


def run(repo: Repo, rep, tier: str):
    rep.exhaustive = True
    rep.assume("a trading-candle span is modelled by two contiguous 1m candles and one resting order (unambiguous fill); hooks and ledgers are event sinks")
    rep.guarded(check_chunk_step, repo, rep)
    rep.guarded(check_chunks_partition, repo, rep)
    rep.guarded(check_structure, repo, rep, tier)
    rep.guarded(check_fast_time, repo, rep)
    rep.guarded(check_equivalence, repo, rep, tier)
    rep.guarded(check_fast_orders_and_gaps, repo, rep, tier)
    rep.guarded(check_hook_market_orders, repo, rep, tier)
    # the candles of the larger timeframes that a fill hook reads: the publisher of the partial candles is interpreted in the
    # history of either simulator - the normal one has stored the executing minute before it matches it, the fast matcher has not
    from props.c07 import check_partial
    rep.guarded(check_partial, repo, rep, tier, "C12-R7")
    from props import sessions as S_
    rep.rule("C12-R8", "mini sessions: like the normal simulator, the fast one generates a higher-timeframe candle only from minutes that have "
                       "been matched, and after their matching (a candle generated before the chunk's fills is overwritten by the partial "
                       "candle of a fill and never rebuilt: the strategy at the chunk end decides on a truncated candle)")
    rep.guarded(S_.check_generation, repo, rep, "C12-R8")
    rep.undecided_item("equality of whole-session outputs (trades, balances) of the two simulators for arbitrary strategies - decided per span and structurally")
    rep.undecided_item("spans longer than two minutes / more than one fill per span (outside the property's precondition)")


CLAIM = {
    "engine": "absint+traces",
    "technique": "abstract interpretation of both matching functions over the order domain of a two-minute span (fill price/time equality), interpretation of the chunk-step function, trace-level sibling agreement of the two simulator loops",
    "text": "Static. (1) For every weak ordering of two contiguous 1m candles and one resting order price, /repo's per-minute matching "
            "(run on minute 1 then minute 2) and the fast chunk matching are both interpreted from source: same fill / no fill, same "
            "price, same simulated fill time, same final current price. (2) The chunk step is the gcd of all route timeframes for 15 "
            "route sets (trading + data routes, incl. non-multiples like 3m+5m, 45m+1h and smaller data routes); the fast time loop "
            "partitions sessions of length 1..13 into consecutive chunks ending at the session length (no over-long trailing chunk). (3) The two simulator loops have identical phase sequences after "
            "inlining helpers and corresponding route-due tests; the fast matcher sets the clock before each execute and at chunk end. "
            "The span runs also compare the active-order list left for the next strategy cycle, and a MARKET order submitted by a fill hook "
            "must execute at the end of that minute in both modes. (4) A chunk with a gap inside (through _simulate_new_candles) fills one / two orders exactly as the normal per-minute "
            "protocol does, and a one-candle chunk fills two / three orders and a reaction order in path order. "
            "Not decided: whole-session output equality for arbitrary strategies; liquidation inside a chunk (C09 defines it per chunk; DESIGN section 4 describes the input on which C09 and C12 pull in opposite directions). The partial-candle publisher in the fast history (R7) and what a second-minute hook finds of the first minute in the store (R4d).",
    "note": "Trusted: interpreter semantics; a span = 2 minutes, 1 order; quick tier samples every 4th ordering (thorough: all 8308).",
}


# ------------------------------------------------------------------ used by C02: no touched order is left unfilled at the end of a fast-mode chunk
def _work2(args):
    root, ranks = args
    repo = Repo(root)
    out = []
    for rank in ranks:
        samples = embeddings(rank, 2)
        for s in samples:
            s.update({"v1": F(2), "v2": F(3), "cp0": F(1), "now": F(T1), "t_created": F(0), "q0": F(1), "q1": F(1), "qr": F(1)})
        try:
            outs = run_mode(repo, "fast", samples, prices=("p", "r"))
        except AnalysisError as e:
            out.append((rank, None, str(e)))
            continue
        res = []
        for o in outs:
            s = o.interp.samples[0] if o.interp.samples else samples[0]
            fills = [(e[1], o.interp.numeric(e[3], s)) for e in o.events if e[0] == "fill"]
            res.append((o.kind, fills))
        out.append((rank, res, None))
    return out


def fast_chunk_two_orders(repo, tier):
    """yield (ordering description, sample, [(kind, fills)]) for a two-minute fast-mode chunk with two resting orders (p < r)"""
    ranks = list(weak_orderings(SYMS + ["r"], CONS + [("p", "<", "r")]))
    if tier == "quick":
        ranks = ranks[::12]
    chunk = max(1, len(ranks) // 64)
    jobs = [(repo.root, ranks[i:i + chunk]) for i in range(0, len(ranks), chunk)]
    with ProcessPoolExecutor(max_workers=min(16, os.cpu_count() or 1)) as ex:
        for res in ex.map(_work2, jobs):
            for rank, r, err in res:
                if err:
                    raise AnalysisError(err)
                yield rank, embeddings(rank, 1)[0], r
