"""C08 - fills inside one minute follow a single continuous price path; candle splitting.

Technique: abstract interpretation of /repo's `split_candle`, `_sort_execution_orders`
and the whole matching loop `_simulate_price_change_effect` over the *order domain*:
prices are symbols and every weak ordering of the symbols (every ordinal arrangement
of O/H/L/C and the order prices, ties included) is enumerated exhaustively.  For
comparison-only code the behaviour on all real inputs is determined by the weak
ordering, so the enumeration is complete; each ordering is embedded in the rationals
in several differently spaced ways, so code that does arithmetic on a price (and
whose branch is therefore not constant on the cell) forks on witnessed samples
instead of being silently mis-decided.
"""
from __future__ import annotations

import os
from fractions import Fraction
from concurrent.futures import ProcessPoolExecutor

from vlib.absint import Interp, Arr, Arr2, FuncV, Obj, explore, R, num, NotInFragment
from vlib.loader import Repo, AnalysisError
from vlib.orderdom import weak_orderings, embeddings, describe
from vlib import world as W
from vlib import simworld as S

CANDLE = "jesse/services/candle.py"

CANDLE_CONS = [("l", "<=", "o"), ("l", "<=", "c"), ("o", "<=", "h"), ("c", "<=", "h")]


def _val(x, s):
    """numeric value of an abstract number under sample s"""
    return x.evaluate(lambda a: s[a])


# ------------------------------------------------------------------ R1 split_candle
def check_split(repo: Repo, rep):
    rid = "C08-R1"
    rep.rule(rid, "split_candle(candle, p): for every weak ordering of (o,c,h,l,p) with l<=o,c<=h and l<=p<=h a pair "
                  "of valid candles is returned that keeps O/C/H/L and (p != o) meets at p; ts/volume copied")
    mod = repo.module(CANDLE)
    fn = repo.func(CANDLE, "split_candle")
    cons = CANDLE_CONS + [("l", "<=", "p"), ("p", "<=", "h")]
    n = 0
    for rank in weak_orderings(["o", "c", "h", "l", "p"], cons):
        n += 1
        samples = embeddings(rank, 2)
        # ... and the same ordering with all levels within 0.01 % of each other (prices a tick apart): a comparison that is exact in the
        # ordinal world must stay exact there - "near the open" is not "at the open"
        levels = sorted(set(samples[0].values()))
        samples.append({k: Fraction(100) + Fraction(levels.index(v), 1000) for k, v in samples[0].items()})
        for s in samples:
            s.update({"ts": Fraction(1000), "v": Fraction(5)})
        desc = describe(rank)

        def mk(dec):
            it = Interp(repo, stubs=W.base_stubs(), samples=[dict(s) for s in samples], decisions=dec)
            return it, lambda it: it.call(FuncV(fn, mod, qual="split_candle"), [W.candle(), R.atom("p")], {})
        outs = explore(mk, max_paths=32)
        for out in outs:
            s = out.interp.samples[0] if out.interp.samples else samples[0]
            key = f"split_candle|{desc}"
            if out.kind != "return":
                rep.violation(rid, key, f"split_candle raises {out.value} for ordering {desc}")
                continue
            v = out.value
            if not (isinstance(v, tuple) and len(v) == 2 and all(isinstance(x, Arr) and len(x.items) == 6 for x in v)):
                rep.violation(rid, key, f"split_candle does not return a pair of candles for ordering {desc} (got {v!r})",
                              {"ordering": desc})
                continue
            try:
                e = [_val(x, s) for x in v[0].items]
                la = [_val(x, s) for x in v[1].items]
            except Exception as ex:
                raise NotInFragment(f"split_candle result not numeric under ordering {desc}: {ex}")
            o, c, h, l, p = (s[k] for k in "ochlp")
            problems = []
            for nm, cd in (("earlier", e), ("later", la)):
                if not (cd[4] <= cd[1] <= cd[3] and cd[4] <= cd[2] <= cd[3]):
                    problems.append(f"{nm} part is not a valid candle (low<=open,close<=high fails)")
                if cd[0] != s["ts"] or cd[5] != s["v"]:
                    problems.append(f"{nm} part does not copy timestamp/volume")
            if e[1] != o:
                problems.append("earlier.open != open")
            if la[2] != c:
                problems.append("later.close != close")
            if max(e[3], la[3]) != h:
                problems.append("max(high) != high")
            if min(e[4], la[4]) != l:
                problems.append("min(low) != low")
            if p != o and (e[2] != p or la[1] != p):
                problems.append("parts do not meet at the split price")
            if problems:
                rep.violation(rid, key, f"split_candle wrong for ordering {desc}: {'; '.join(problems)}",
                              {"ordering": desc, "earlier": repr(v[0]), "later": repr(v[1])})
            rep.instance(rid, desc, {"ordering": desc, "earlier": repr(v[0]), "later": repr(v[1])} if n % 40 == 1 else None)
    rep.floor(rid, 40)


def check_match_loop(repo: Repo, rep, tier):
    rep.rule("C08-R2", "matching loop fills resting orders in the order in which the path O-L-H-C (rising/flat) or "
                       "O-H-L-C (falling) first reaches their prices (all weak orderings of O,C,H,L and order prices)")
    rep.rule("C08-R3", "an order created in reaction to a fill fills only if the part of the path after that fill "
                       "reaches its price; partial candle published before each fill closes at the fill price")
    from props import matchloop
    total = 0
    for desc, viols, sample in matchloop.run_all(repo, tier):
        total += 1
        rep.instance("C08-R2", desc, sample if total % 500 == 1 else None)
        for rid, key, msg in viols:
            # C02/C09 rules found by the same runs are reported by their own checks
            kind = key.split("|")[1]
            if rid.startswith("C08"):
                rep.violation(rid, "|".join(key.split("|")[:2]), msg, {"ordering": desc})
            elif kind in ("unfilled", "nonterminating", "raises"):
                # an order the path reaches but that does not fill breaks the path order of fills as well
                rep.violation("C08-R2", f"match-loop|{kind}", msg, {"ordering": desc})
    rep.floor("C08-R2", 500)
    rep.extra["match_loop_orderings"] = total


def run(repo: Repo, rep, tier: str):
    rep.exhaustive = True
    rep.assume("prices are compared, copied, min/max-ed only (checked: any arithmetic makes the branch non-constant on a cell and forks on witnessed samples)")
    rep.assume("position hook / exchange ledgers / candle storage are abstract event sinks in the matching-loop runs")
    rep.guarded(check_split, repo, rep)
    rep.guarded(check_match_loop, repo, rep, tier)


CLAIM = {
    "engine": "absint",
    "technique": "abstract interpretation of split_candle / _sort_execution_orders / the 1m matching loop over the order domain (all weak orderings enumerated)",
    "text": "Static, exhaustive over a finite abstraction: /repo's split_candle and the whole matching loop "
            "(_simulate_price_change_effect with _get_executing_orders, _sort_execution_orders, candle_includes_price, "
            "Order.execute) are interpreted from the AST for every weak ordering of O/H/L/C, up to 3 resting order "
            "prices and a reaction order placed from a fill hook; results are compared with the continuous-path "
            "reference (O-L-H-C / O-H-L-C). Because the code only compares/copies prices, the ordering determines "
            "behaviour on all real inputs, so this decides the clause for every candle and price arrangement. "
            "Not decided: more than 3 simultaneous resting orders plus cascaded reactions (k>3), fast-mode multi-candle sorting. Every ordering is also witnessed with all levels a tick apart (tolerance comparisons must not replace exact ones); one-for-one order replacement from a fill hook.",
    "note": "Trusted: the interpreter implements CPython semantics for the subset used; hooks/ledgers are abstract sinks; "
            "reaction orders are modelled as one LIMIT order inserted via OrdersState.add_order at a fill.",
}
