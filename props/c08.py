"""C08 - fills inside one minute follow a single continuous price path; candle splitting.

Technique: abstract interpretation of /repo's `split_candle`, `_sort_execution_orders`
and the whole matching loop `_simulate_price_change_effect` over the *order domain*:
prices are symbols and every weak ordering of the symbols (every ordinal arrangement
of O/H/L/C and the order prices, ties included) is enumerated exhaustively.  For
comparison-only code the behaviour on all real inputs is determined by the weak
ordering, so the enumeration is complete; each ordering is embedded in the rationals
in several differently spaced ways, so code that does arithmetic on a price (and
whose branch is therefore not constant on the cell) forks on witnessed samples
instead of being silently mis-decided.
"""
from __future__ import annotations

import os
from fractions import Fraction
from concurrent.futures import ProcessPoolExecutor

from vlib.absint import Interp, Arr, Arr2, FuncV, Obj, explore, R, num, NotInFragment
from vlib.loader import Repo, AnalysisError
from vlib.orderdom import weak_orderings, embeddings, describe
from vlib import world as W
from vlib import simworld as S

CANDLE = "jesse/services/candle.py"

CANDLE_CONS = [("l", "<=", "o"), ("l", "<=", "c"), ("o", "<=", "h"), ("c", "<=", "h")]


def _val(x, s):
    """numeric value of an abstract number under sample s"""
    return x.evaluate(lambda a: s[a])


# ------------------------------------------------------------------ R1 split_candle
def check_split(repo: Repo, rep):
    rid = "C08-R1"
    rep.rule(rid, "split_candle(candle, p): for every weak ordering of (o,c,h,l,p) with l<=o,c<=h and l<=p<=h a pair "
                  "of valid candles is returned that keeps O/C/H/L and (p != o) meets at p; ts/volume copied")
    mod = repo.module(CANDLE)
    fn = repo.func(CANDLE, "split_candle")
    cons = CANDLE_CONS + [("l", "<=", "p"), ("p", "<=", "h")]
    n = 0
    for rank in weak_orderings(["o", "c", "h", "l", "p"], cons):
        n += 1
        samples = embeddings(rank, 2)
        for s in samples:
            s.update({"ts": Fraction(1000), "v": Fraction(5)})
        desc = describe(rank)

        def mk(dec):
            it = Interp(repo, stubs=W.base_stubs(), samples=[dict(s) for s in samples], decisions=dec)
            return it, lambda it: it.call(FuncV(fn, mod, qual="split_candle"), [W.candle(), R.atom("p")], {})
        outs = explore(mk, max_paths=32)
        for out in outs:
            s = out.interp.samples[0] if out.interp.samples else samples[0]
            key = f"split_candle|{desc}"
            if out.kind != "return":
                rep.violation(rid, key, f"split_candle raises {out.value} for ordering {desc}")
                continue
            v = out.value
            if not (isinstance(v, tuple) and len(v) == 2 and all(isinstance(x, Arr) and len(x.items) == 6 for x in v)):
                rep.violation(rid, key, f"split_candle does not return a pair of candles for ordering {desc} (got {v!r})",
                              {"ordering": desc})
                continue
            try:
                e = [_val(x, s) for x in v[0].items]
                la = [_val(x, s) for x in v[1].items]
            except Exception as ex:
                raise NotInFragment(f"split_candle result not numeric under ordering {desc}: {ex}")
            o, c, h, l, p = (s[k] for k in "ochlp")
            problems = []
            for nm, cd in (("earlier", e), ("later", la)):
                if not (cd[4] <= cd[1] <= cd[3] and cd[4] <= cd[2] <= cd[3]):
                    problems.append(f"{nm} part is not a valid candle (low<=open,close<=high fails)")
                if cd[0] != s["ts"] or cd[5] != s["v"]:
                    problems.append(f"{nm} part does not copy timestamp/volume")
            if e[1] != o:
                problems.append("earlier.open != open")
            if la[2] != c:
                problems.append("later.close != close")
            if max(e[3], la[3]) != h:
                problems.append("max(high) != high")
            if min(e[4], la[4]) != l:
                problems.append("min(low) != low")
            if p != o and (e[2] != p or la[1] != p):
                problems.append("parts do not meet at the split price")
            if problems:
                rep.violation(rid, key, f"split_candle wrong for ordering {desc}: {'; '.join(problems)}",
                              {"ordering": desc, "earlier": repr(v[0]), "later": repr(v[1])})
            rep.instance(rid, desc, {"ordering": desc, "earlier": repr(v[0]), "later": repr(v[1])} if n % 40 == 1 else None)
    rep.floor(rid, 40)


# ------------------------------------------------------------------ R2 / R3 matching loop
def _expected_fills(s, case: S.SimCase):
    """Reference model: orders fill where the continuous path first reaches their price."""
    o, c, h, l = s["o"], s["c"], s["h"], s["l"]
    segs = S.path_segments(o, c, h, l)
    pos = {}
    for i, p in enumerate(case.order_prices):
        if i in case.inactive:
            continue
        fp = S.first_position(segs, s[p])
        if fp is not None:
            pos[f"O{i}"] = fp
    return segs, pos


def _check_case(repo, case: S.SimCase, rank):
    """Returns (violations, sample) for one weak ordering."""
    desc = describe(rank)
    samples = embeddings(rank, 2)
    for s in samples:
        s.update({"ts": Fraction(60000), "v": Fraction(5), "cp0": Fraction(1), "now": Fraction(120000),
                  "t_created": Fraction(0)})
        for i in range(len(case.order_prices)):
            s[f"q{i}"] = Fraction(1)
        s["qr"] = Fraction(1)
    outs = S.run_match_loop(repo, case, samples)
    viols = []
    trace_sample = None
    for out in outs:
        s = out.interp.samples[0] if out.interp.samples else samples[0]
        w = out.interp.world
        if out.kind != "return":
            viols.append(("C08-R3", f"match-loop|raises|{desc}", f"matching loop raises {out.value} for {desc}"))
            continue
        segs, pos = _expected_fills(s, case)
        fills = [ev for ev in out.events if ev[0] == "fill"]
        names = [f[1] for f in fills]
        # reaction order
        if case.reaction is not None and len(names) > case.reaction[0]:
            trig = names[case.reaction[0]]
            if trig in pos or trig == "REACT":
                t0 = pos.get(trig)
                if t0 is not None:
                    rp = S.first_position(segs, s[case.reaction[1]], start=t0)
                    if rp is not None:
                        pos["REACT"] = rp
        exp_names = set(pos)
        got = [n for n in names]
        if len(set(got)) != len(got):
            viols.append(("C08-R3", f"match-loop|double-fill|{desc}", f"an order is filled twice in one minute for {desc}: {got}"))
        # boundary: a reaction order placed exactly at the triggering fill price may or may not fill
        optional = set()
        if case.reaction is not None and len(names) > case.reaction[0]:
            trig = names[case.reaction[0]]
            if trig.startswith("O"):
                tp = s[case.order_prices[int(trig[1:])]]
                if s[case.reaction[1]] == tp:
                    optional.add("REACT")
        missing = exp_names - set(got) - optional
        extra = set(got) - exp_names - optional
        if missing:
            viols.append(("C02-R2", f"match-loop|unfilled|{desc}",
                          f"active order(s) {sorted(missing)} whose price lies on the remaining path are left unfilled for {desc}"))
        if extra:
            viols.append(("C08-R3", f"match-loop|spurious|{desc}",
                          f"order(s) {sorted(extra)} filled although the (remaining) path never reaches their price for {desc}"))
        # path order
        seq = [(n, pos[n]) for n in got if n in pos]
        for a, b in zip(seq, seq[1:]):
            if a[1] > b[1]:
                viols.append(("C08-R2", f"match-loop|order|{desc}",
                              f"fills are not in path order for {desc}: {a[0]} at path position {a[1]} before {b[0]} at {b[1]}"))
                break
        # fill price = own price = published partial close = current price at the hook
        cur_open = s["o"]
        for f in fills:
            cp, own = f[2], f[3]
            # (a fill exactly at the open of the remaining candle publishes that whole remaining
            #  candle: split_candle's documented behaviour for price == open)
            at_open = _val(own, s) == cur_open
            cur_open = _val(own, s)
            if at_open:
                continue
            if not (isinstance(cp, R) and _val(cp, s) == _val(own, s)):
                viols.append(("C02-R4", f"match-loop|fillprice|{desc}",
                              f"order {f[1]} is filled with current price {cp!r}, not at its own price {own!r} for {desc}"))
        # ordering of events: partial candle published before the execution it belongs to
        last_partial = None
        cur_open = s["o"]
        for ev in out.events:
            if ev[0] == "partial":
                last_partial = ev[1]
            if ev[0] == "fill":
                at_open = _val(ev[3], s) == cur_open
                cur_open = _val(ev[3], s)
                if last_partial is None or (not at_open and _val(last_partial[2], s) != _val(ev[3], s)):
                    viols.append(("C08-R3", f"match-loop|partial|{desc}",
                                  f"partial candle published before fill of {ev[1]} does not close at the fill price for {desc}"))
                last_partial = None
        # epilogue: real candle stored, current price = close, liquidation check after matching
        adds = [ev for ev in out.events if ev[0] == "add_candle"]
        real = tuple(W.candle().items)
        if not adds or not all(x.same(y) for x, y in zip(adds[-1][1], real)):
            viols.append(("C02-R1", f"match-loop|store-real|{desc}", f"the unsplit 1m candle is not stored at the end of the minute for {desc}"))
        cpe = w["position"].attrs.get("current_price")
        if not (isinstance(cpe, R) and cpe.same(R.atom("c"))):
            viols.append(("C02-R1", f"match-loop|close-price|{desc}", f"current price after the minute is {cpe!r}, not the close, for {desc}"))
        liq = [i for i, ev in enumerate(out.events) if ev[0] == "liqcheck"]
        last_fill = max([i for i, ev in enumerate(out.events) if ev[0] == "fill"], default=-1)
        if len(liq) != 1 or liq[0] < last_fill:
            viols.append(("C09-R2", f"match-loop|liqcheck|{desc}", f"liquidation check not run exactly once after matching for {desc}"))
        if trace_sample is None:
            trace_sample = {"ordering": desc, "fills": got,
                            "expected_positions": {k: [v[0], str(v[1])] for k, v in pos.items()}}
    return viols, trace_sample


def _cases(tier):
    cases = []
    # k resting orders, no reaction
    ks = [1, 2] if tier == "quick" else [1, 2, 3]
    for k in ks:
        cases.append(S.SimCase([f"p{i}" for i in range(k)]))
    # reaction orders: triggered by first fill
    cases.append(S.SimCase(["p0"], reaction=(0, "r")))
    if tier != "quick":
        cases.append(S.SimCase(["p0", "p1"], reaction=(0, "r")))
        cases.append(S.SimCase(["p0", "p1"], reaction=(1, "r")))
    # an already-cancelled order in the active list must be skipped
    cases.append(S.SimCase(["p0", "p1"], inactive=[0]))
    return cases


def _work(args):
    root, case_spec, ranks = args
    repo = Repo(root)
    case = S.SimCase(*case_spec)
    res = []
    for rank in ranks:
        try:
            res.append((rank, _check_case(repo, case, rank), None))
        except AnalysisError as e:
            res.append((rank, ([], None), str(e)))
    return res


def check_match_loop(repo: Repo, rep, tier):
    rep.rule("C08-R2", "matching loop fills resting orders in the order in which the path O-L-H-C (rising/flat) or "
                       "O-H-L-C (falling) first reaches their prices (all weak orderings of O,C,H,L and order prices)")
    rep.rule("C08-R3", "an order created in reaction to a fill fills only if the part of the path after that fill "
                       "reaches its price; partial candle published before each fill closes at the fill price")
    jobs = []
    for case in _cases(tier):
        syms = ["o", "c", "h", "l"] + case.order_prices + ([case.reaction[1]] if case.reaction else [])
        ranks = list(weak_orderings(syms, CANDLE_CONS))
        spec = (case.order_prices, case.reaction, case.inactive)
        chunk = max(1, len(ranks) // 64)
        for i in range(0, len(ranks), chunk):
            jobs.append((repo.root, spec, ranks[i:i + chunk]))
    nproc = min(16, os.cpu_count() or 1)
    total = 0
    with ProcessPoolExecutor(max_workers=nproc) as ex:
        for res in ex.map(_work, jobs):
            for rank, (viols, sample), err in res:
                if err:
                    raise AnalysisError(err)
                total += 1
                desc = describe(rank)
                rep.instance("C08-R2", desc, sample if total % 500 == 1 else None)
                for rid, key, msg in viols:
                    # report under C08 only the C08 rules; C02/C09 rules are reported by their own checks
                    if rid.startswith("C08"):
                        rep.violation(rid, key.split("|")[0] + "|" + key.split("|")[1], msg, {"ordering": desc})
    rep.floor("C08-R2", 500)
    rep.extra["match_loop_orderings"] = total


def run(repo: Repo, rep, tier: str):
    rep.exhaustive = True
    rep.assume("prices are compared, copied, min/max-ed only (checked: any arithmetic makes the branch non-constant on a cell and forks on witnessed samples)")
    rep.assume("position hook / exchange ledgers / candle storage are abstract event sinks in the matching-loop runs")
    check_split(repo, rep)
    check_match_loop(repo, rep, tier)


CLAIM = {
    "engine": "absint",
    "technique": "abstract interpretation of split_candle / _sort_execution_orders / the 1m matching loop over the order domain (all weak orderings enumerated)",
    "text": "Static, exhaustive over a finite abstraction: /repo's split_candle and the whole matching loop "
            "(_simulate_price_change_effect with _get_executing_orders, _sort_execution_orders, candle_includes_price, "
            "Order.execute) are interpreted from the AST for every weak ordering of O/H/L/C, up to 3 resting order "
            "prices and a reaction order placed from a fill hook; results are compared with the continuous-path "
            "reference (O-L-H-C / O-H-L-C). Because the code only compares/copies prices, the ordering determines "
            "behaviour on all real inputs, so this decides the clause for every candle and price arrangement. "
            "Not decided: more than 3 simultaneous resting orders plus cascaded reactions (k>3), fast-mode multi-candle sorting.",
    "note": "Trusted: the interpreter implements CPython semantics for the subset used; hooks/ledgers are abstract sinks; "
            "reaction orders are modelled as one LIMIT order inserted via OrdersState.add_order at a fill.",
}
