"""C19 - optimizer DNA decodes into in-range, typed, monotone hyperparameters; injection precedence."""
from __future__ import annotations

import ast
from fractions import Fraction as F

from vlib.absint import Interp, Obj, Arr, FuncV, BoundBuiltin, BUILTINS, explore, R, num, Unknown, NotInFragment
from vlib.loader import Repo, AnalysisError, norm
from vlib import world as W

HELPERS = W.HELPERS
OPT = "jesse/modes/optimize_mode/Optimize.py"
BT = W.BT
STRAT = "jesse/strategies/Strategy.py"


def A(n):
    return R.atom(n)


def check_convert(repo, rep):
    rid = "C19-R1"
    rep.rule(rid, "convert_number(M, m, max, min, v) has the normal form (v-m)(max-min)/(M-m)+min; hence f(m) = min, f(M) = max and "
                  "the slope (max-min)/(M-m) does not depend on v (monotone); values outside [m, M] are rejected")
    smp = [{"M": F(119), "m": F(40), "hi": F(30), "lo": F(-3), "v": F(60)}]
    outs = W.run_function(repo, HELPERS, "convert_number", lambda it: ([A("M"), A("m"), A("hi"), A("lo"), A("v")], {}), samples=smp)
    form = None
    for out in outs:
        want = (A("v") - A("m")) * (A("hi") - A("lo")) / (A("M") - A("m")) + A("lo")
        if out.kind != "return" or not (isinstance(out.value, R) and out.value.same(want)):
            rep.violation(rid, "convert_number|form", f"convert_number = {out.value!r}, expected {want!r}")
        else:
            form = out.value
        rep.instance(rid, "normal-form", {"value": repr(out.value)})
    if form is not None:
        # endpoints and slope, symbolically
        for nm, val, exp in (("f(m)", A("m"), A("lo")), ("f(M)", A("M"), A("hi"))):
            outs = W.run_function(repo, HELPERS, "convert_number", lambda it: ([A("M"), A("m"), A("hi"), A("lo"), val], {}), samples=smp)
            for out in outs:
                if out.kind != "return" or not (isinstance(out.value, R) and out.value.same(exp)):
                    rep.violation(rid, f"convert_number|{nm}", f"convert_number: {nm} = {out.value!r}, expected {exp!r}")
                rep.instance(rid, nm, {"value": repr(out.value)})
    for nm, v in (("below", F(39)), ("above", F(120))):
        outs = W.run_function(repo, HELPERS, "convert_number", lambda it: ([A("M"), A("m"), A("hi"), A("lo"), A("v")], {}),
                              samples=[{**smp[0], "v": v}])
        for out in outs:
            if out.kind != "raise":
                rep.violation(rid, f"convert_number|reject-{nm}", f"convert_number accepts a value {nm} the old range")
            rep.instance(rid, f"reject-{nm}")
    rep.floor(rid, 5)


DECLS = [
    {"name": "i_pos", "type": "int", "min": 0, "max": 79}, {"name": "i_neg", "type": "int", "min": -20, "max": 30},
    {"name": "i_small", "type": "int", "min": 3, "max": 7}, {"name": "f_frac", "type": "float", "min": F(-1, 2), "max": F(5, 2)},
    {"name": "f_unit", "type": "float", "min": 0, "max": 1},
]


_FOLD_NODES = (ast.Expression, ast.Constant, ast.Name, ast.Load, ast.BinOp, ast.Add, ast.Mult, ast.Sub, ast.Call, ast.Attribute, ast.GeneratorExp, ast.ListComp,
               ast.comprehension, ast.Store, ast.JoinedStr, ast.FormattedValue, ast.Tuple, ast.List, ast.Subscript, ast.Slice, ast.UnaryOp, ast.USub)
_FOLD_FUNCS = {"chr": chr, "range": range, "map": map, "str": str, "list": list, "ord": ord, "sorted": sorted, "len": len, "tuple": tuple}


def _fold_str(repo, mod, node, depth=0):
    """constant folding of the default alphabet: a string literal, or a pure expression over literals, module-level constants and
    chr / range / map / join (e.g. ''.join(map(chr, range(40, 120)))).  Anything else -> None (analysis error at the caller)."""
    if node is None or depth > 4:
        return None
    if isinstance(node, ast.Constant):
        return node.value if isinstance(node.value, str) else None
    env = {}
    for n_ in ast.walk(node):
        if not isinstance(n_, _FOLD_NODES):
            return None
        if isinstance(n_, ast.Attribute) and n_.attr != "join":
            return None
        if isinstance(n_, ast.Name) and isinstance(n_.ctx, ast.Load) and n_.id not in _FOLD_FUNCS:
            bound = {t.id for c in ast.walk(node) if isinstance(c, ast.comprehension) for t in ast.walk(c.target) if isinstance(t, ast.Name)}
            if n_.id in bound:
                continue
            # a module-level constant, assigned exactly once
            defs = [b for b in mod.tree.body if isinstance(b, ast.Assign) and len(b.targets) == 1 and isinstance(b.targets[0], ast.Name) and b.targets[0].id == n_.id]
            if len(defs) != 1:
                return None
            v = _fold_str(repo, mod, defs[0].value, depth + 1)
            if v is None:
                try:
                    v = ast.literal_eval(defs[0].value)
                except Exception:
                    return None
            env[n_.id] = v
    try:
        v = eval(compile(ast.Expression(node), "<fold>", "eval"), {"__builtins__": {}}, dict(_FOLD_FUNCS, **env))
    except Exception:
        return None
    return v if isinstance(v, str) else None


def check_decode(repo, rep):
    rid = "C19-R2"
    rep.rule(rid, "alphabet agreement and decoding: the optimizer's default charset is the contiguous code-point range [40, 119] that "
                  "dna_to_hp hard-codes; dna_to_hp interpreted for every letter of the alphabet at every position of several "
                  "(min, max, type) declarations (negative, fractional bounds): value in [min, max], int for int parameters, "
                  "non-decreasing in the gene, first letter -> min, last -> max, independent of the other genes")
    init = repo.func(OPT, "Optimizer.__init__")
    charset = None
    names = [a.arg for a in init.args.args]
    if "charset" in names:
        idx = names.index("charset") - (len(names) - len(init.args.defaults))
        d = init.args.defaults[idx] if idx >= 0 else None
        charset = _fold_str(repo, repo.module(OPT), d)
    if charset is None:
        raise AnalysisError("Optimizer.__init__: literal default charset not found")
    codes = [ord(c) for c in charset]
    # constants used by dna_to_hp
    fn = repo.func(HELPERS, "dna_to_hp")
    consts = set()
    for c in ast.walk(fn):
        if isinstance(c, ast.Call) and norm(c.func).endswith("convert_number") and len(c.args) >= 2:
            if isinstance(c.args[0], ast.Constant) and isinstance(c.args[1], ast.Constant):
                consts.add((c.args[0].value, c.args[1].value))
    if len(consts) != 1:
        rep.violation(rid, "alphabet|constants", f"dna_to_hp uses range constants {sorted(consts)} (expected one pair)")
    else:
        hi, lo = next(iter(consts))
        if codes != list(range(lo, hi + 1)):
            rep.violation(rid, "alphabet|agreement", f"optimizer charset spans code points {min(codes)}..{max(codes)} ({len(codes)} letters, contiguous={codes == list(range(min(codes), max(codes) + 1))}) "
                                                     f"but dna_to_hp decodes the range {lo}..{hi}")
    rep.instance(rid, "alphabet", {"first": charset[0], "last": charset[-1], "letters": len(charset)})
    TYPES = {"int": BUILTINS["int"], "float": BUILTINS["float"]}
    decls = [{**d, "type": TYPES[d["type"]], "min": num(d["min"]), "max": num(d["max"])} for d in DECLS]
    other = charset[len(charset) // 2]
    for pos, d in enumerate(decls):
        prev = None
        for ci, ch in enumerate(charset):
            dna = "".join(ch if k == pos else other for k in range(len(decls)))
            outs = W.run_function(repo, HELPERS, "dna_to_hp", lambda it: ([[dict(x) for x in decls], dna], {}))
            for out in outs:
                key = f"{d['name']}|{ch}"
                if out.kind != "return" or not isinstance(out.value, dict) or d["name"] not in out.value:
                    rep.violation(rid, f"decode|{d['name']}|raises", f"dna_to_hp fails for letter {ch!r} of parameter {d['name']}: {out.value!r}")
                    continue
                v = out.value[d["name"]]
                if not (isinstance(v, R) and v.is_const()):
                    rep.violation(rid, f"decode|{d['name']}|value", f"decoded value of {d['name']} for {ch!r} is not a number: {v!r}")
                    continue
                x = v.const_value()
                lo_, hi_ = DECLS[pos]["min"], DECLS[pos]["max"]
                if not (lo_ <= x <= hi_):
                    rep.violation(rid, f"decode|{d['name']}|range", f"letter {ch!r} decodes {d['name']} to {x}, outside [{lo_}, {hi_}]")
                if DECLS[pos]["type"] == "int" and x.denominator != 1:
                    rep.violation(rid, f"decode|{d['name']}|type", f"int parameter {d['name']} decodes to the non-integer {x} for {ch!r}")
                if prev is not None and x < prev:
                    rep.violation(rid, f"decode|{d['name']}|monotone", f"{d['name']} decreases from {prev} to {x} at letter {ch!r}")
                if ci == 0 and x != lo_:
                    rep.violation(rid, f"decode|{d['name']}|first", f"first letter decodes {d['name']} to {x}, expected min {lo_}")
                if ci == len(charset) - 1 and x != hi_:
                    rep.violation(rid, f"decode|{d['name']}|last", f"last letter decodes {d['name']} to {x}, expected max {hi_}")
                # independence of the other genes
                for oname, ov in out.value.items():
                    pass
                prev = x
                rep.instance(rid, key, {"param": d["name"], "letter": ch, "value": str(x)} if ci % 27 == 0 else None)
        # independence: change the other genes, value of this parameter unchanged
        for alt in (charset[0], charset[-1]):
            ch = charset[17]
            vals = []
            for o in (other, alt):
                dna = "".join(ch if k == pos else o for k in range(len(decls)))
                for out in W.run_function(repo, HELPERS, "dna_to_hp", lambda it: ([[dict(x) for x in decls], dna], {})):
                    if out.kind == "return":
                        vals.append(out.value[d["name"]].const_value())
            if len(set(vals)) != 1:
                rep.violation(rid, f"decode|{d['name']}|independence", f"{d['name']} depends on other genes: {vals}")
            rep.instance(rid, f"{d['name']}|independence|{alt}")
    # unsupported type is rejected
    for out in W.run_function(repo, HELPERS, "dna_to_hp", lambda it: ([[{"name": "s", "type": BUILTINS["str"], "min": num(0), "max": num(1)}], "a"], {})):
        if out.kind != "raise":
            rep.violation(rid, "decode|unsupported-type", "dna_to_hp accepts a parameter type other than int/float")
        rep.instance(rid, "unsupported-type")
    rep.floor(rid, 300)


def check_precedence(repo, rep):
    rid = "C19-R3"
    rep.rule(rid, "_prepare_routes + Strategy._init_objects interpreted for one and two routes x explicit hyperparameters / dna() / "
                  "defaults: explicit values win over dna(), dna() over defaults, and each route's hp derives only from the explicit "
                  "argument or from that route's own strategy (no value computed for an earlier route leaks into a later one)")
    def strategy_factory(name, dna, defaults):
        def make(it, a, k):
            st = W.obj_of(repo, STRAT, "Strategy", name, {"hp": None, "name": None, "exchange": None, "symbol": None, "timeframe": None,
                                                          "position": None, "broker": None})
            W.bind(st, "dna", lambda i, aa, kk: dna)
            W.bind(st, "hyperparameters", lambda i, aa, kk: [dict(x) for x in defaults])
            it.strategies[name] = st
            return st
        return BoundBuiltin(make)
    decl_a = [{"name": "a", "type": BUILTINS["int"], "min": num(0), "max": num(79), "default": num(5)}]
    decl_b = [{"name": "b", "type": BUILTINS["int"], "min": num(0), "max": num(10), "default": num(3)}]
    scenarios = {
        "one route, defaults only": ([("R1", "", decl_a)], None, [{"a": 5}]),
        "one route, dna": ([("R1", "w", decl_a)], None, [{"a": 79}]),
        "one route, explicit over dna": ([("R1", "w", decl_a)], {"a": num(11)}, [{"a": 11}]),
        "one route, explicit over defaults": ([("R1", "", decl_a)], {"a": num(11)}, [{"a": 11}]),
        "two routes, dna then defaults": ([("R1", "w", decl_a), ("R2", "", decl_b)], None, [{"a": 79}, {"b": 3}]),
        "two routes, defaults then dna": ([("R1", "", decl_b), ("R2", "(", decl_a)], None, [{"b": 3}, {"a": 0}]),
        "two routes, both dna": ([("R1", "w", decl_a), ("R2", "(", decl_b)], None, [{"a": 79}, {"b": 0}]),
        "two routes, explicit": ([("R1", "w", decl_a), ("R2", "", decl_b)], {"a": num(11)}, [{"a": 11}, {"a": 11}]),
    }
    for sname, (routes, explicit, expected) in scenarios.items():
        def mk(dec):
            it = Interp(repo, stubs=W.base_stubs(), decisions=dec)
            it.strategies = {}
            rts = []
            for rn, dna, decl in routes:
                rts.append(Obj("Route", name=rn, attrs={"strategy_name": strategy_factory(rn, dna, decl), "exchange": "Sandbox",
                                                        "symbol": f"{rn}-USDT", "timeframe": "1m", "strategy": None}))
            router = Obj("RouterClass", name="router", attrs={"routes": rts}, open_world=True)
            it.overrides["jesse/routes/__init__.py:router"] = router
            it.overrides["jesse/services/api.py:api"] = Obj("API", name="api", attrs={}, open_world=True)
            pos = Obj("Position", name="position", attrs={"strategy": None}, open_world=True)
            it.stubs[f"{W.SELECTORS}:get_position"] = lambda i, a, k: pos
            fn = repo.func(BT, "_prepare_routes")
            return it, lambda it: it.call(FuncV(fn, repo.module(BT), qual="_prepare_routes"), [dict(explicit) if explicit is not None else None], {})
        for out in explore(mk, 32):
            if out.kind != "return":
                rep.violation(rid, f"precedence|raises", f"_prepare_routes raises {out.value} in scenario '{sname}'")
                continue
            for (rn, dna, decl), exp in zip(routes, expected):
                hp = out.interp.strategies[rn].attrs.get("hp")
                got = {k: (int(v.const_value()) if isinstance(v, R) and v.is_const() else repr(v)) for k, v in hp.items()} if isinstance(hp, dict) else hp
                if got != exp:
                    kind = "cross-route-leak" if len(routes) > 1 and explicit is None else "precedence"
                    rep.violation(rid, f"{kind}|{sname}", f"scenario '{sname}': route {rn} gets hp {got}, expected {exp}")
            rep.instance(rid, sname, {"scenario": sname, "hp": {rn: repr(out.interp.strategies[rn].attrs.get("hp")) for rn, _, _ in routes}})
    rep.floor(rid, 8)


def check_float_decode_bounded(repo, rep):
    rid = "C19-R2f"
    rep.rule(rid, "IEEE guard of the float decode: the affine map ((g-40)(max-min))/79 + min equals max at the last letter only in exact "
                  "arithmetic; evaluated in doubles it overshoots for many declared bounds ([0.1, 1.0] -> 1.0000000000000002), so the "
                  "range clause needs the float branch of dna_to_hp to bound its result by the declared min and max with exact "
                  "operations (min/max, clip or comparisons against h['min'] / h['max'])")
    fn = repo.func(HELPERS, "dna_to_hp")
    branches = [n for n in ast.walk(fn) if isinstance(n, ast.If) and "float" in norm(n.test) and "type" in norm(n.test)]
    if len(branches) != 1:
        raise AnalysisError(f"dna_to_hp: expected one float branch, found {len(branches)}")
    body = branches[0].body
    txt = " ".join(norm(st) for st in body)
    bounded_hi = bounded_lo = False
    for st in body:
        for n in ast.walk(st):
            if isinstance(n, ast.Call) and SLAST(n) in ("min", "minimum", "clip") and "h['max']" in norm(n):
                bounded_hi = True
            if isinstance(n, ast.Call) and SLAST(n) in ("max", "maximum", "clip") and "h['min']" in norm(n):
                bounded_lo = True
            if isinstance(n, ast.Compare) and "h['max']" in norm(n):
                bounded_hi = True
            if isinstance(n, ast.Compare) and "h['min']" in norm(n):
                bounded_lo = True
    # concrete IEEE witness of the unbounded formula (evaluated here, on the documented expression, not on /repo's code)
    mn, mx = 0.1, 1.0
    witness = (((119 - 40) * (mx - mn)) / (119 - 40)) + mn
    if not (bounded_hi and bounded_lo):
        rep.violation(rid, "float-decode|unbounded", f"dna_to_hp: the float branch (`{txt[:120]}`) does not bound the decoded value by the declared range; in IEEE doubles the last "
                                                      f"letter of a parameter declared in [{mn}, {mx}] decodes to {witness!r} > max")
    # the bounding construct returns one of its operands: when that is a declared bound written as an int literal (max = 1), the
    # decoded value of a float parameter would be an int - the result must be converted
    for st in body:
        if isinstance(st, ast.Assign) and isinstance(st.value, ast.Call) and SLAST(st.value) in ("min", "max", "minimum", "maximum") and ("h['max']" in norm(st.value) or "h['min']" in norm(st.value)):
            rep.violation(rid, "float-decode|type", f"dna_to_hp: `{norm(st)}` can return the declared bound object itself (an int for `'max': 1`), so a float hyperparameter is "
                                                    f"decoded to an int on the letters where the bound applies; wrap the result in float()")
    rep.instance(rid, "float-branch", {"statements": txt[:200], "bounded_above": bounded_hi, "bounded_below": bounded_lo, "ieee_witness_unbounded": repr(witness)})
    rep.floor(rid, 1)


def SLAST(call):
    f = call.func
    return f.attr if isinstance(f, ast.Attribute) else (f.id if isinstance(f, ast.Name) else "")


def check_decode_path_pure(repo, rep):
    """'depending only on the gene at that position' - and on the DECLARATION: every caller of dna_to_hp (the optimizer's fitness
    worker, the optimizer's report, the backtest's route preparation) hands the strategy what dna_to_hp returns for the declaration it
    was given; a memo between them must be keyed by everything the decode depends on"""
    from vlib.purity import Purity
    rid = "C19-R5"
    rep.rule(rid, "effect analysis of the decode path: the functions that call helpers.dna_to_hp (and the module-local functions they "
                  "call) store nothing into module-level state unless the key holds every used parameter whole (a bare name or a wholesale "
                  "conversion - not a projection such as the parameter names of a declaration)")
    P = Purity(repo)
    n = 0
    for rel in ("jesse/modes/optimize_mode/fitness.py", "jesse/modes/optimize_mode/Optimize.py", "jesse/modes/backtest_mode.py", "jesse/helpers.py"):
        mod = repo.module(rel)
        callers = []
        for f in ast.walk(mod.tree):
            if isinstance(f, ast.FunctionDef) and (f.name in ("dna_to_hp", "convert_number") or
                                                   any(isinstance(c, ast.Call) and norm(c.func).split(".")[-1] == "dna_to_hp" for c in ast.walk(f))):
                callers.append(f)
        # ... and whoever wraps those inside the module (one level: a memoising wrapper around the decoder)
        names = {f.name for f in callers}
        for f in ast.walk(mod.tree):
            if isinstance(f, ast.FunctionDef) and f not in callers and any(isinstance(c, ast.Call) and norm(c.func).split(".")[-1] in names for c in ast.walk(f)):
                callers.append(f)
        for f in callers:
            P._globals(mod, f)
            n += 1
            rep.instance(rid, f"{rel}:{f.name}")
    seen = set()
    for f in P.findings:
        if f.key() in seen or (f.rel, f.func) == ("jesse/helpers.py", "get_config"):
            continue
        seen.add(f.key())
        rep.violation(rid, f"{f.rule}|{f.rel}:{f.func}", f"{f.rel}: {f.func}: {f.what} - the hyperparameters a strategy is given then depend on what was decoded earlier, "
                                                           f"not only on the gene and the declaration")
    if n < 4:
        raise AnalysisError(f"C19-R5: only {n} functions on the decode path found")
    rep.floor(rid, 4)


def run(repo: Repo, rep, tier: str):
    rep.exhaustive = True
    rep.guarded(check_decode_path_pure, repo, rep)
    rep.assume("decoding is evaluated in exact rational arithmetic (round() is round-half-even as in CPython); float representation error of the division is not modelled")
    rep.guarded(check_convert, repo, rep)
    rep.guarded(check_float_decode_bounded, repo, rep)
    rep.guarded(check_decode, repo, rep)
    rep.guarded(check_precedence, repo, rep)
    rep.undecided_item("int parameters with non-integer bounds (rounding may leave the range)")
    rep.undecided_item("score formula of fitness.get_fitness (not part of the statement)")


CLAIM = {
    "engine": "absint",
    "technique": "symbolic normal form of convert_number, exhaustive interpretation of dna_to_hp over the whole alphabet x declarations, abstract interpretation of _prepare_routes/_init_objects over route/dna/explicit scenarios",
    "text": "Static. convert_number's normal form gives the endpoints and the constant slope symbolically; the optimizer's literal charset is "
            "compared with the constants dna_to_hp hard-codes; dna_to_hp is interpreted from source for all 80 letters at every position "
            "of five declarations (negative and fractional bounds, int and float): in range, typed, monotone, endpoints, gene "
            "independence. _prepare_routes and Strategy._init_objects are interpreted for eight one- and two-route scenarios of "
            "explicit / dna() / default hyperparameters and each route's hp compared with the precedence the property states. "
            "IEEE guard: the float branch of dna_to_hp must bound its result by the declared range (the affine map overshoots in doubles). "
            "Not decided: int parameters with non-integer bounds; exact equality of the last letter with max in floating point. Effect analysis of the decode path (R5: a memo between dna_to_hp and the strategy must be keyed by the whole declaration).",
    "note": "Trusted: interpreter semantics; exact rational arithmetic.",
}
