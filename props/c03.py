"""C03 - the futures account equals an average-cost margin account model.

Position._on_executed_order (with the _mutating_* methods, estimate_PNL,
estimate_average_price, charge_fee, add_realized_pnl) and the three
FuturesExchange order handlers plus available_margin are interpreted from /repo's
source on symbolic state and compared, as polynomials, with a reference
average-cost margin account for every sign pattern of (position size, order
quantity), every magnitude relation, reduce_only flag and side.
"""
from __future__ import annotations

import itertools
from fractions import Fraction as F

from vlib.absint import Interp, Obj, Arr, Arr2, FuncV, ClassV, explore, R, num, Unknown, NotInFragment
from vlib.loader import Repo, AnalysisError
from vlib import world as W

POSITION = "jesse/models/Position.py"
FUT = "jesse/models/FuturesExchange.py"
DNA = "jesse/libs/dynamic_numpy_array/__init__.py"
SYM = "BTC-USDT"


def A(n):
    return R.atom(n)


ONE = R.const(1)


# ================================================================== part A: fills
def fill_grid():
    pts = []
    for P, Q, E, p in itertools.product([F(1), F(2), F(3)], [F(1), F(2), F(3)], [F(5), F(10)], [F(4), F(10), F(12)]):
        pts.append({"P": P, "Q": Q, "E": E, "p": p, "f": F(1, 100), "Wt": F(1000), "T": F(0), "cp": F(9), "lev": F(2),
                    "now": F(60000)})
    # a wallet that a realised loss plus the fee takes below zero (an all-in position closed at a loss): the reference account simply
    # books the loss - "a wallet cannot be negative" clamps would hide part of it
    for P, Q, E, p in ((F(2), F(2), F(10), F(4)), (F(2), F(1), F(10), F(4)), (F(1), F(2), F(5), F(12)), (F(3), F(3), F(5), F(12)), (F(2), F(3), F(10), F(4))):
        pts.append({"P": P, "Q": Q, "E": E, "p": p, "f": F(1, 100), "Wt": F(1), "T": F(0), "cp": F(9), "lev": F(2), "now": F(60000)})
    return pts


def fill_model(sP, sQ, ro, s):
    """Reference average-cost margin account.  sP in (-1,0,1), sQ in (-1,1).  Returns
    (cell, wallet', size', entry', trade_events)."""
    P, Q, E, p, f, Wt = A("P"), A("Q"), A("E"), A("p"), A("f"), A("Wt")
    sp = R.const(sP) * P     # signed size
    sq = R.const(sQ) * Q     # signed order qty
    wallet = Wt - Q * p * f  # fee on every fill: |filled qty * price| * fee
    if sP == 0:
        return "open", wallet, sq, p, ["open_trade"]
    pv, qv = s["P"], s["Q"]
    if sP == sQ:
        if ro:
            return "increase-blocked", Wt, sp, E, []          # nothing is filled: no fee
        return "increase", wallet, sp + sq, (Q * p + P * E) / (Q + P), []
    # opposite signs
    if qv == pv:
        return "close", wallet + sp * (p - E), num(0), None, ["close_trade"]
    if qv > pv:
        if ro:
            # only the position size is filled: fee on |P * p|
            return "oversize-reduce-only", Wt - P * p * f + sp * (p - E), num(0), None, ["close_trade"]
        # an order that flips the position: the old trade is closed (and reported), the rest of the order is the entry of the new one
        return "flip", wallet + sp * (p - E), sp + sq, p, ["close_trade", "entry_of_next_trade", "open_trade"]
    return "reduce", wallet - sq * (p - E), sp + sq, E, []


def build_fill_world(repo, it: Interp, sP, sQ, ro, typ):
    dna_mod, dna_cls = repo.module(DNA), repo.cls(DNA, "DynamicNumpyArray")
    empty = lambda: it.instantiate(ClassV(dna_cls, dna_mod), [(num(10), num(2))], {})
    ex = W.obj_of(repo, FUT, "FuturesExchange", "exchange", {
        "name": "Sandbox", "type": "futures", "fee_rate": A("f"), "settlement_currency": "USDT",
        "assets": {"USDT": A("Wt"), "BTC": num(0)}, "temp_reduced_amount": {"BTC": A("T"), "USDT": num(0)},
        "buy_orders": {"BTC": empty()}, "sell_orders": {"BTC": empty()}, "symbols": {"BTC": SYM}, "available_assets": {"BTC": num(0), "USDT": A("Wt")},
        "futures_leverage": A("lev"), "futures_leverage_mode": "cross"})
    strat = Obj("Strategy", name="strategy", attrs={"leverage": A("lev"), "timeframe": "1m", "name": "S", "trades_count": num(0)}, open_world=True)
    pos = W.obj_of(repo, POSITION, "Position", "position", {
        "qty": R.const(sP) * A("P"), "previous_qty": num(0), "entry_price": A("E") if sP != 0 else None, "exit_price": None,
        "current_price": A("cp"), "opened_at": None, "closed_at": None, "exchange": ex, "exchange_name": "Sandbox",
        "symbol": SYM, "strategy": strat, "id": "pos"})
    def held_rows(i):
        out = {}
        for side in ("buy", "sell"):
            t = ex.attrs[side + "_orders"]["BTC"]
            n = int(t.attrs["index"].const_value()) + 1
            out[side] = [tuple(r.items) for r in t.attrs["array"].rows[:n]]
        return out
    def hook(i, a, k):
        # what a strategy hook does: it looks at the position and - sizing its next order - at the available margin
        try:
            am = i.getattr(ex, "available_margin")
        except NotInFragment as e:
            am = ("not-interpretable", str(e))
        i.event("strategy_hook", pos.attrs["qty"], pos.attrs["previous_qty"], held_rows(i), am)
    W.bind(strat, "_on_updated_position", hook)
    it.stubs[f"{W.SELECTORS}:get_position"] = lambda i, a, k: pos
    it.held_rows = held_rows
    trades = Obj("ClosedTrades", name="store.completed_trades", attrs={})
    W.bind(trades, "open_trade", lambda i, a, k: i.event("trade", "open_trade"))
    W.bind(trades, "close_trade", lambda i, a, k: i.event("trade", "close_trade"))
    W.bind(trades, "add_order_record_only", lambda i, a, k: i.event("trade", "entry_of_next_trade", a[3]))
    next_trade = Obj("ClosedTrade", name="next-trade", attrs={"orders": []}, open_world=True)
    W.bind(trades, "_get_current_trade", lambda i, a, k: next_trade)
    it.overrides[f"{W.STORE}:store"] = Obj("StoreClass", name="store", attrs={"completed_trades": trades}, open_world=True)
    side = W.enum_value(repo, "sides", "BUY" if sQ > 0 else "SELL")
    o = W.make_order(repo, "O", side, W.enum_value(repo, "order_types", typ), R.const(sQ) * A("Q"), A("p"),
                     reduce_only=ro, status=W.enum_value(repo, "order_statuses", "EXECUTED"), symbol=SYM)
    it.pos, it.ex, it.order = pos, ex, o
    return pos, o


def check_fills(repo, rep, rid="C03-R1"):
    rep.rule(rid, "Position._on_executed_order (backtest): for every sign pattern of (position, order), magnitude relation and "
                  "reduce_only flag the resulting wallet, signed size and average entry equal the reference margin account "
                  "(fee |filled q*p|*f on every fill - a reduce-only order is filled only up to the position it reduces; PnL realised on reduce/close/flip; reduce-only never increases or flips); trade "
                  "open/close bookkeeping and exactly one strategy notification follow the effect")
    pts = fill_grid()
    for sP in (-1, 0, 1):
        for sQ in (-1, 1):
            for ro in (False, True):
                cells = {}
                for s in pts:
                    if sP == 0 and (s["P"] != 1 or s["E"] != 5):
                        continue
                    ck = fill_model(sP, sQ, ro, s)[0]
                    cells.setdefault(ck, []).append(s)
                for ck, samples in sorted(cells.items()):
                    env = f"P{'+0-'[1 - sP]}|Q{'+-'[0 if sQ > 0 else 1]}|reduce_only={ro}|{ck}"

                    def mk(dec):
                        it = Interp(repo, stubs=W.base_stubs(), samples=[dict(x) for x in samples],
                                    nonneg={"P", "Q", "E", "p", "f", "Wt", "T", "cp", "lev"}, decisions=dec)
                        pos, o = build_fill_world(repo, it, sP, sQ, ro, "LIMIT")

                        def thunk(it):
                            it.call(it.getattr(pos, "_on_executed_order"), [o], {})
                            try:
                                it.am_after = it.getattr(it.ex, "available_margin")
                            except NotInFragment as e:
                                it.am_after = ("not-interpretable", str(e))
                        return it, thunk
                    for out in explore(mk, 64):
                        s = out.interp.samples[0]
                        cell, w_exp, p_exp, e_exp, tr_exp = fill_model(sP, sQ, ro, s)
                        if out.kind != "return":
                            rep.violation(rid, f"{env}|raises", f"fill {env}: _on_executed_order raises {out.value} (witness {fmt(s)})")
                            continue
                        pos, ex = out.interp.pos, out.interp.ex
                        w_got, p_got, e_got = ex.attrs["assets"]["USDT"], pos.attrs["qty"], pos.attrs["entry_price"]
                        probs = []
                        if not (isinstance(w_got, R) and w_got.same(w_exp)):
                            probs.append(f"wallet {w_got!r} != model {w_exp!r}")
                        if not (isinstance(p_got, R) and p_got.same(p_exp)):
                            probs.append(f"size {p_got!r} != model {p_exp!r}")
                        if (e_exp is None) != (e_got is None) or (e_exp is not None and not (isinstance(e_got, R) and e_got.same(e_exp))):
                            probs.append(f"entry {e_got!r} != model {e_exp!r}")
                        tr = [e[1] for e in out.events if e[0] == "trade"]
                        if tr != tr_exp:
                            probs.append(f"trade bookkeeping {tr} != {tr_exp}")
                        # the available margin read after the fill (the hooks of the fill have read it too - a memo must not outlive the
                        # ledger it was computed from): wallet - (entry*|size|/leverage - unrealised PnL), nothing rests in this world
                        am = getattr(out.interp, "am_after", None)
                        if isinstance(am, R) and isinstance(w_exp, R) and isinstance(p_exp, R):
                            val_ = lambda r: r.evaluate(lambda a: s[a])
                            if val_(p_exp) == 0 or e_exp is None:
                                am_exp = w_exp
                            else:
                                sz = p_exp if val_(p_exp) > 0 else -p_exp
                                am_exp = w_exp - (e_exp * sz / A("lev") - p_exp * (A("cp") - e_exp))
                            if not am.same(am_exp):
                                probs.append(f"available margin after the fill is {am!r}, the reference account has {am_exp!r}")
                        elif isinstance(am, tuple):
                            rep.undecided_item(f"C03-R1 {env}: available_margin after the fill is not interpretable ({am[1][:80]})")
                        hooks = [i for i, e in enumerate(out.events) if e[0] == "strategy_hook"]
                        if cell == "flip":
                            # two events: the close (the strategy sees size 0) and the opening of the opposite position
                            seen = [out.events[i][1] for i in hooks]
                            if len(hooks) != 2 or not (isinstance(seen[0], R) and seen[0].same(num(0))) or not (isinstance(seen[1], R) and seen[1].same(p_exp)):
                                probs.append(f"a flip must be reported as a close (size 0) followed by an open (size {p_exp!r}); the strategy was notified with sizes {seen}")
                            elif any(e[0] in ("trade",) or (e[0] == "store" and e[1] in ("position", "exchange")) for e in out.events[hooks[1] + 1:]):
                                probs.append("strategy notified before the position was fully updated")
                            else:
                                # while the close is reported the rest of the order is held like a resting order (an order submitted
                                # by a hook of the close is margin-checked against what is really left), and it is released afterwards
                                rest = R.const(sP) * A("P") + R.const(sQ) * A("Q")
                                side_ = "buy" if sQ > 0 else "sell"
                                held = out.events[hooks[0]][3]
                                want_rows = [(rest, A("p"))]
                                got_rows = held.get(side_, [])
                                if len(got_rows) != 1 or not all(isinstance(x, R) and x.same(y) for x, y in zip(got_rows[0], want_rows[0])) or held.get("sell" if side_ == "buy" else "buy"):
                                    probs.append(f"during the close event of a flip the margin of the rest of the order ({rest!r} @ p) is not held: reservation ledger {held}")
                                after = out.interp.held_rows(out.interp)
                                if after["buy"] or after["sell"]:
                                    probs.append(f"the held rest of a flipping order is not released after the new position is open: {after}")
                        elif len(hooks) != 1:
                            probs.append(f"strategy notified {len(hooks)} times")
                        elif any(e[0] in ("trade",) or (e[0] == "store" and e[1] in ("position", "exchange")) for e in out.events[hooks[0] + 1:]):
                            probs.append("strategy notified before the position was fully updated")
                        else:
                            hq = out.events[hooks[0]][1]
                            if not (isinstance(hq, R) and hq.same(p_exp)):
                                probs.append(f"strategy hook sees size {hq!r}, model {p_exp!r}")
                        if probs:
                            rep.violation(rid, f"{env}", f"fill {env}: " + "; ".join(probs) + f" (witness {fmt(s)}; path {out.conds})")
                        rep.instance(rid, env + "|" + str(out.conds), {"case": env, "wallet": repr(w_got), "size": repr(p_got), "entry": repr(e_got), "trades": tr})
    rep.floor(rid, 20)


def check_qty_update(repo, rep):
    rid = "C03-R3"
    rep.rule(rid, "Position._update_qty (futures): set/add/subtract give q, P+q, P-q and remember the previous size; "
                  "estimate_PNL and estimate_average_price have their textbook normal forms")
    for op, exp in (("set", A("q")), ("add", A("P") + A("q")), ("subtract", A("P") - A("q"))):
        def selfobj(it):
            ex = Obj("FuturesExchange", name="exchange", attrs={"type": "futures", "fee_rate": A("f")}, open_world=True)
            p = W.obj_of(repo, POSITION, "Position", "position", {"qty": A("P"), "previous_qty": num(0), "exchange": ex})
            it.pos = p
            return p
        for out in W.run_function(repo, POSITION, "Position._update_qty", lambda it: ([A("q")], {"operation": op}), self_obj_factory=selfobj):
            got = out.interp.pos.attrs["qty"]
            if out.kind != "return" or not (isinstance(got, R) and got.same(exp)):
                rep.violation(rid, f"_update_qty|futures|{op}", f"Position._update_qty(futures, {op}) gives {got!r}, expected {exp!r}")
            prev = out.interp.pos.attrs.get("previous_qty")
            if not (isinstance(prev, R) and prev.same(A("P"))):
                rep.violation(rid, f"_update_qty|futures|{op}|previous", f"previous_qty is {prev!r} after _update_qty")
            rep.instance(rid, f"futures|{op}", {"qty": repr(got)})
    # helpers
    for typ, sign in (("long", 1), ("short", -1)):
        for out in W.run_function(repo, W.HELPERS, "estimate_PNL", lambda it: ([A("q"), A("E"), A("x"), typ, A("tf")], {}), nonneg={"q"}):
            want = R.const(sign) * A("q") * (A("x") - A("E")) - A("tf") * A("q") * (A("E") + A("x"))
            if out.kind != "return" or not (isinstance(out.value, R) and out.value.same(want)):
                rep.violation(rid, f"estimate_PNL|{typ}", f"estimate_PNL({typ}) = {out.value!r}, expected {want!r}")
            rep.instance(rid, f"estimate_PNL|{typ}", {"value": repr(out.value)})
    for out in W.run_function(repo, W.HELPERS, "estimate_average_price", lambda it: ([A("q"), A("p"), A("P"), A("E")], {}), nonneg={"q", "P"}):
        want = (A("q") * A("p") + A("P") * A("E")) / (A("q") + A("P"))
        if out.kind != "return" or not (isinstance(out.value, R) and out.value.same(want)):
            rep.violation(rid, "estimate_average_price", f"estimate_average_price = {out.value!r}, expected {want!r}")
        rep.instance(rid, "estimate_average_price", {"value": repr(out.value)})
    rep.floor(rid, 6)


# ================================================================== part B: margin reservation
def margin_grid():
    pts = []
    for q, p, q1, q2, Wt, P in itertools.product([F(1), F(2), F(5)], [F(10), F(20)], [F(1), F(3)], [F(1), F(4)],
                                                 [F(10), F(40), F(100), F(400)], [F(1), F(2)]):
        pts.append({"q": q, "p": p, "q1": q1, "p1": F(8), "q2": q2, "p2": F(15), "Wt": Wt, "P": P, "E": F(9), "cp": F(11),
                    "lev": F(2), "f": F(1, 100), "a0": F(0)})
    return pts


def am_model(s, pos_sign, rows_buy, rows_sell):
    """available margin of the reference account (symbolic), max decided at sample s"""
    val = lambda r: r.evaluate(lambda a: s[a])
    m = A("Wt")
    if pos_sign != 0:
        P, E, cp, lev = A("P"), A("E"), A("cp"), A("lev")
        pnl = R.const(pos_sign) * P * (cp - E)
        m = m - (E * P / lev - pnl)
    sb = num(0)
    for qq, pp in rows_buy:
        sb = sb + qq * pp
    ss = num(0)
    for qq, pp in rows_sell:
        ss = ss + qq * pp
    ab = sb if val(sb) >= 0 else -sb
    as_ = ss if val(ss) >= 0 else -ss
    big = ab if val(ab) >= val(as_) else as_
    return m - big / A("lev")


def build_margin_world(repo, it: Interp, pos_sign, pre_rows=True):
    dna_mod = repo.module(DNA)
    dna_cls = repo.cls(DNA, "DynamicNumpyArray")

    def table(rows):
        t = it.instantiate(ClassV(dna_cls, dna_mod), [(num(10), num(2))], {})
        for r in rows:
            it.call(it.getattr(t, "append"), [Arr(list(r))], {})
        return t
    rows_buy = [(A("q1"), A("p1"))] if pre_rows else []
    rows_sell = [(-A("q2"), A("p2"))] if pre_rows else []
    ex = W.obj_of(repo, FUT, "FuturesExchange", "exchange", {
        "name": "Sandbox", "type": "futures", "fee_rate": A("f"), "settlement_currency": "USDT",
        "assets": {"BTC": num(0), "USDT": A("Wt")}, "available_assets": {"BTC": A("a0"), "USDT": A("Wt")},
        "buy_orders": {"BTC": table(rows_buy)}, "sell_orders": {"BTC": table(rows_sell)}, "symbols": {"BTC": SYM},
        "futures_leverage": A("lev"), "futures_leverage_mode": "cross"})
    strat = Obj("Strategy", name="strategy", attrs={"leverage": A("lev")}, open_world=True)
    pos = W.obj_of(repo, POSITION, "Position", "position", {
        "qty": R.const(pos_sign) * A("P"), "previous_qty": num(0), "entry_price": A("E") if pos_sign else None,
        "current_price": A("cp"), "exchange": ex, "exchange_name": "Sandbox", "symbol": SYM, "strategy": strat})
    it.stubs[f"{W.SELECTORS}:get_position"] = lambda i, a, k: pos
    it.ex, it.pos = ex, pos
    it.rows0 = (rows_buy, rows_sell)
    return ex


def table_rows(it, ex, side):
    t = ex.attrs["buy_orders" if side == "buy" else "sell_orders"]["BTC"]
    n = int(t.attrs["index"].const_value()) + 1
    return [tuple(r.items) for r in t.attrs["array"].rows[:n]]


def rows_same(a, b):
    return len(a) == len(b) and all(x.same(y) for ra, rb in zip(a, b) for x, y in zip(ra, rb))


HANDLER = {"submit": "on_order_submission", "cancel": "on_order_cancellation", "execute": "on_order_execution"}


def check_margin(repo, rep):
    rid = "C03-R4"
    rep.rule(rid, "FuturesExchange handlers over side x reduce_only x position sign: submission raises InsufficientMargin "
                  "exactly when not reduce_only and |qty*price|/leverage > available margin and then leaves no reservation; "
                  "an accepted non-reduce-only order reserves one (qty, price) row on its side; cancel / execute release "
                  "exactly that row; submit;cancel restores the available margin (symbolically)")
    rid5 = "C03-R5"
    rep.rule(rid5, "available_margin = wallet - sum_assets[open: entry*|size|/leverage - unrealised PnL] - "
                   "max(|sum buy q*p|, |sum sell q*p|)/leverage, as a polynomial identity per case of the max")
    pts = margin_grid()
    nonneg = {"q", "p", "q1", "p1", "q2", "p2", "Wt", "P", "E", "cp", "lev", "f"}
    sides = {"buy": W.enum_value(repo, "sides", "BUY"), "sell": W.enum_value(repo, "sides", "SELL")}
    limit = W.enum_value(repo, "order_types", "LIMIT")
    val = lambda r, s: r.evaluate(lambda a: s[a])
    # --- available margin formula
    for pos_sign in (0, 1, -1):
        for pre in (True, False):
            cells = {}
            for s in pts:
                rb = [(A("q1"), A("p1"))] if pre else []
                rs = [(-A("q2"), A("p2"))] if pre else []
                ab, as_ = sum(val(x * y, s) for x, y in rb), abs(sum(val(x * y, s) for x, y in rs))
                cells.setdefault("buy>=sell" if ab >= as_ else "sell>buy", []).append(s)
            for ck, samples in sorted(cells.items()):
                def mk(dec):
                    it = Interp(repo, stubs=W.base_stubs(), samples=[dict(x) for x in samples], nonneg=set(nonneg), decisions=dec)
                    ex = build_margin_world(repo, it, pos_sign, pre)
                    return it, lambda it: it.getattr(ex, "available_margin")
                for out in explore(mk, 32):
                    s = out.interp.samples[0]
                    rb, rs = out.interp.rows0
                    want = am_model(s, pos_sign, rb, rs)
                    env = f"available_margin|pos{pos_sign:+d}|{'resting' if pre else 'no-orders'}|{ck}"
                    if out.kind != "return" or not (isinstance(out.value, R) and out.value.same(want)):
                        rep.violation(rid5, env.rsplit("|", 1)[0], f"{env}: available_margin = {out.value!r}, reference {want!r} (witness {fmt(s)})")
                    rep.instance(rid5, env + str(out.conds), {"case": env, "value": repr(out.value)})
    # --- submission / release pairing
    for side in ("buy", "sell"):
        for ro in (False, True):
            for pos_sign in (0, 1, -1):
                for seq in (("submit",), ("submit", "cancel"), ("submit", "execute")):
                    # model's case split: rejected or not (first step)
                    cells = {}
                    for s in pts:
                        rb, rs = [(A("q1"), A("p1"))], [(-A("q2"), A("p2"))]
                        am = val(am_model(s, pos_sign, rb, rs), s)
                        rej = (not ro) and (s["q"] * s["p"] / s["lev"] > am)
                        ab, as_ = val(rb[0][0] * rb[0][1], s), abs(val(rs[0][0] * rs[0][1], s))
                        cells.setdefault(("reject" if rej else "accept", "b" if ab >= as_ else "s"), []).append(s)
                    for ck, samples in sorted(cells.items()):
                        if ck[0] == "reject" and len(seq) > 1:
                            continue
                        env = f"{'+'.join(seq)}|{side}|reduce_only={ro}|pos{pos_sign:+d}|{ck[0]}"

                        def mk(dec):
                            it = Interp(repo, stubs=W.base_stubs(), samples=[dict(x) for x in samples], nonneg=set(nonneg), decisions=dec)
                            ex = build_margin_world(repo, it, pos_sign, True)
                            qty = A("q") if side == "buy" else -A("q")
                            o = W.make_order(repo, "O", sides[side], limit, qty, A("p"), reduce_only=ro, symbol=SYM)
                            it.order = o

                            def thunk(it):
                                it.am0 = it.getattr(ex, "available_margin")
                                for op in seq:
                                    it.call(it.getattr(ex, HANDLER[op]), [o], {})
                                it.am1 = it.getattr(ex, "available_margin")
                            return it, thunk
                        for out in explore(mk, 128):
                            s = out.interp.samples[0]
                            ex = out.interp.ex
                            rb0, rs0 = out.interp.rows0
                            rb1, rs1 = table_rows(out.interp, ex, "buy"), table_rows(out.interp, ex, "sell")
                            new_row = (A("q") if side == "buy" else -A("q"), A("p"))
                            if ck[0] == "reject":
                                if out.kind != "raise" or out.value.name != "InsufficientMargin":
                                    rep.violation(rid, f"submit|{side}|reduce_only={ro}|missing-reject",
                                                  f"{env}: order whose notional/leverage exceeds the available margin is accepted (witness {fmt(s)})")
                                elif not (rows_same(rb1, rb0) and rows_same(rs1, rs0)):
                                    rep.violation(rid, f"submit|{side}|reduce_only={ro}|reject-leaves-reservation", f"{env}: a rejected order leaves a margin reservation")
                            else:
                                if out.kind == "raise":
                                    rep.violation(rid, f"submit|{side}|reduce_only={ro}|spurious-reject",
                                                  f"{env}: {out.value} raised although notional/leverage <= available margin or the order is reduce-only (witness {fmt(s)})")
                                else:
                                    exp_b, exp_s = list(rb0), list(rs0)
                                    if seq == ("submit",) and not ro:
                                        (exp_b if side == "buy" else exp_s).append(new_row)
                                    if not (rows_same(rb1, exp_b) and rows_same(rs1, exp_s)):
                                        rep.violation(rid, f"{'+'.join(seq)}|{side}|reduce_only={ro}|reservation",
                                                      f"{env}: reserved rows buy={rb1} sell={rs1}, reference buy={exp_b} sell={exp_s}")
                                    if len(seq) == 2:
                                        am0, am1 = out.interp.am0, out.interp.am1
                                        if not (isinstance(am0, R) and isinstance(am1, R) and am0.same(am1)):
                                            rep.violation(rid, f"{'+'.join(seq)}|{side}|reduce_only={ro}|margin-restored",
                                                          f"{env}: available margin {am1!r} after {seq} differs from {am0!r} before")
                                    if seq == ("submit", "cancel"):
                                        av = ex.attrs["available_assets"]["BTC"]
                                        if not (isinstance(av, R) and av.same(A("a0"))):
                                            rep.violation(rid, f"submit+cancel|{side}|available_assets", f"{env}: available_assets not restored: {av!r}")
                            rep.instance(rid, env + "|" + ck[1] + str(len(out.conds)), {"case": env, "buy_rows": repr(rb1), "sell_rows": repr(rs1), "raised": out.kind == "raise"})
    rep.floor(rid, 40)
    rep.floor(rid5, 6)


def check_margin_twins(repo, rep):
    rid = "C03-R4t"
    rep.rule(rid, "two resting non-reduce-only orders with identical (qty, price) on the same side: executing or cancelling one of them "
                  "releases exactly one reservation row, the twin's reservation stays")
    sides = {"buy": W.enum_value(repo, "sides", "BUY"), "sell": W.enum_value(repo, "sides", "SELL")}
    limit = W.enum_value(repo, "order_types", "LIMIT")
    dna_mod, dna_cls = repo.module(DNA), repo.cls(DNA, "DynamicNumpyArray")
    smp = {"q": F(2), "p": F(10), "Wt": F(1000), "lev": F(2), "f": F(1, 100), "a0": F(0)}
    for side in ("buy", "sell"):
        for op in ("execute", "cancel"):
            def mk(dec):
                it = Interp(repo, stubs=W.base_stubs(), samples=[dict(smp)], nonneg=set(smp), decisions=dec)
                qty = A("q") if side == "buy" else -A("q")

                def table(rows):
                    t = it.instantiate(ClassV(dna_cls, dna_mod), [(num(10), num(2))], {})
                    for r in rows:
                        it.call(it.getattr(t, "append"), [Arr(list(r))], {})
                    return t
                twins = [(qty, A("p")), (qty, A("p"))]
                ex = W.obj_of(repo, FUT, "FuturesExchange", "exchange", {
                    "name": "Sandbox", "type": "futures", "fee_rate": A("f"), "settlement_currency": "USDT",
                    "assets": {"BTC": num(0), "USDT": A("Wt")}, "available_assets": {"BTC": A("a0"), "USDT": A("Wt")},
                    "buy_orders": {"BTC": table(twins if side == "buy" else [])}, "sell_orders": {"BTC": table(twins if side == "sell" else [])}, "symbols": {"BTC": SYM},
                    "futures_leverage": A("lev"), "futures_leverage_mode": "cross"})
                o = W.make_order(repo, "O", sides[side], limit, qty, A("p"), reduce_only=False, symbol=SYM)
                it.ex = ex
                return it, lambda it: it.call(it.getattr(ex, HANDLER[op]), [o], {})
            for out in explore(mk, 16):
                rows = table_rows(out.interp, out.interp.ex, side) if out.kind == "return" else None
                qty_ = A("q") if side == "buy" else -A("q")
                if rows is None or not rows_same(rows, [(qty_, A("p"))]):
                    rep.violation(rid, f"twins|{op}|{side}", f"{HANDLER[op]} of one of two identical resting {side} orders leaves reservation rows {rows if rows is not None else out.value} "
                                                              f"(expected exactly the twin's row)")
                rep.instance(rid, f"{op}|{side}", {"rows_left": repr(rows)})
    rep.floor(rid, 4)


def check_margin_multi(repo, rep):
    rid5 = "C03-R5"
    rep.rule("C03-R5m", "available_margin with several symbols sharing one wallet: the open-position cost and the resting-order "
                        "reservation of EVERY traded asset are subtracted (two assets, orders resting on each, symbolic)")
    dna_mod, dna_cls = repo.module(DNA), repo.cls(DNA, "DynamicNumpyArray")
    smp = {"q1": F(1), "p1": F(8), "q2": F(4), "p2": F(15), "q3": F(2), "p3": F(30), "q4": F(1), "p4": F(31), "Wt": F(1000), "P": F(2), "E": F(9),
           "cp": F(11), "P2": F(3), "E2": F(28), "cp2": F(27), "lev": F(2), "f": F(1, 100)}
    nonneg = set(smp)
    for order, quote, settle in ((("BTC", "ETH"), "USDT", "USDT"), (("ETH", "BTC"), "USDT", "USDT"),
                                 # an exchange whose settlement currency is not the quote part of its symbols (BTC-PERP settled in USDC)
                                 (("BTC", "ETH"), "PERP", "USDC")):
        def mk(dec):
            it = Interp(repo, stubs=W.base_stubs(), samples=[dict(smp)], nonneg=set(nonneg), decisions=dec)

            def table(rows):
                t = it.instantiate(ClassV(dna_cls, dna_mod), [(num(10), num(2))], {})
                for r in rows:
                    it.call(it.getattr(t, "append"), [Arr(list(r))], {})
                return t
            assets = {}
            for a in order:
                assets[a] = num(0)
            assets[settle] = A("Wt")
            ex = W.obj_of(repo, FUT, "FuturesExchange", "exchange", {
                "name": "Sandbox", "type": "futures", "fee_rate": A("f"), "settlement_currency": settle, "assets": assets,
                "symbols": {"BTC": f"BTC-{quote}", "ETH": f"ETH-{quote}"},
                "buy_orders": {"BTC": table([(A("q1"), A("p1"))]), "ETH": table([(A("q3"), A("p3"))])},
                "sell_orders": {"BTC": table([(-A("q2"), A("p2"))]), "ETH": table([(-A("q4"), A("p4"))])},
                "futures_leverage": A("lev"), "futures_leverage_mode": "cross"})
            strat = Obj("Strategy", name="strategy", attrs={"leverage": A("lev")}, open_world=True)
            pos = {
                f"BTC-{quote}": W.obj_of(repo, POSITION, "Position", "pos_btc", {"qty": A("P"), "previous_qty": num(0), "entry_price": A("E"), "current_price": A("cp"),
                                                                                "exchange": ex, "exchange_name": "Sandbox", "symbol": f"BTC-{quote}", "strategy": strat}),
                f"ETH-{quote}": W.obj_of(repo, POSITION, "Position", "pos_eth", {"qty": -A("P2"), "previous_qty": num(0), "entry_price": A("E2"), "current_price": A("cp2"),
                                                                                "exchange": ex, "exchange_name": "Sandbox", "symbol": f"ETH-{quote}", "strategy": strat}),
            }
            it.stubs[f"{W.SELECTORS}:get_position"] = lambda i, a, k: pos.get(a[1])
            return it, lambda it: it.getattr(ex, "available_margin")
        for out in explore(mk, 32):
            lev = A("lev")
            want = A("Wt") - (A("E") * A("P") / lev - A("P") * (A("cp") - A("E"))) - (A("E2") * A("P2") / lev - (-A("P2")) * (A("cp2") - A("E2"))) \
                - (A("q2") * A("p2")) / lev - (A("q3") * A("p3")) / lev
            if out.kind != "return" or not (isinstance(out.value, R) and out.value.same(want)):
                rep.violation("C03-R5m", "available_margin|two-assets" + ("" if quote == settle else "|settlement-not-quote"),
                              f"available_margin with two traded assets (iteration order {order}, symbols *-{quote}, settled in {settle}) = {out.value!r}, reference {want!r}")
            rep.instance("C03-R5m", f"two-assets|{order}|{quote}|{settle}", {"value": repr(out.value)})
    rep.floor("C03-R5m", 3)


def check_fee(repo, rep):
    rid = "C03-R2"
    rep.rule(rid, "charge_fee debits |amount|*fee_rate and add_realized_pnl credits the PnL to the wallet (symbolic)")

    def selfobj(it):
        ex = W.obj_of(repo, FUT, "FuturesExchange", "exchange", {"name": "Sandbox", "fee_rate": A("f"), "settlement_currency": "USDT",
                                                                  "assets": {"USDT": A("Wt")}})
        it.ex = ex
        return ex
    for sign in (1, -1):
        for out in W.run_function(repo, FUT, "FuturesExchange.charge_fee", lambda it: ([R.const(sign) * A("amt")], {}), self_obj_factory=selfobj,
                                  nonneg={"amt", "f"}, samples=[{"amt": F(3), "f": F(1, 100), "Wt": F(50)}]):
            got = out.interp.ex.attrs["assets"]["USDT"]
            want = A("Wt") - A("amt") * A("f")
            if out.kind != "return" or not (isinstance(got, R) and got.same(want)):
                rep.violation(rid, "charge_fee", f"charge_fee({'+' if sign > 0 else '-'}amount) leaves wallet {got!r}, expected {want!r}")
            rep.instance(rid, f"charge_fee|{sign}", {"wallet": repr(got)})
    for out in W.run_function(repo, FUT, "FuturesExchange.add_realized_pnl", lambda it: ([A("pnl")], {}), self_obj_factory=selfobj,
                              samples=[{"pnl": F(-3), "Wt": F(50)}]):
        got = out.interp.ex.attrs["assets"]["USDT"]
        if out.kind != "return" or not (isinstance(got, R) and got.same(A("Wt") + A("pnl"))):
            rep.violation(rid, "add_realized_pnl", f"add_realized_pnl leaves wallet {got!r}")
        rep.instance(rid, "add_realized_pnl", {"wallet": repr(got)})
    rep.floor(rid, 3)


def fmt(s):
    return "{" + ", ".join(f"{k}={v}" for k, v in s.items() if k in ("P", "Q", "E", "p", "q", "Wt", "q1", "q2")) + "}"


def check_symbols_minute_major(repo, rep):
    """'at every point of a futures session' with several symbols sharing one wallet: the unrealised PnL of the OTHER symbols that
    enters the available margin at a fill must be priced at that minute; the fast simulator replays a whole chunk per symbol, so the
    other symbol is already priced at the chunk's last close (the construct decided by C02-R7)"""
    from props import sessions as S
    rep.rule("C03-R7", "both simulator functions interpreted whole on mini sessions with the matcher recorded: every minute of every symbol is "
                       "matched exactly once, in order, and with several symbols minute-major (every symbol's minute m before any symbol's minute m+1)")
    S.check_cover(repo, rep, "C03-R7")


def check_entry_histories(repo, rep):
    """the average entry price after a HISTORY of fills (a carried running cost that one of the mutators forgets to maintain is right
    after every single fill on a fresh position and wrong after reduce-then-increase)"""
    from props.c09 import _position
    rid = "C03-R9"
    rep.rule(rid, "average entry price after histories of the position mutators (increase, reduce, increase; reduce, increase; close, open, "
                  "increase), long and short: the weighted average of what is still held - (entry * remaining + price * added) / (remaining "
                  "+ added) - as a rational identity; a reduction leaves the entry price unchanged")
    one = R.const(1)
    for typ, sg in (("long", 1), ("short", -1)):
        for hist in (("inc", "red", "inc"), ("red", "inc"), ("close", "open", "inc"), ("red", "red", "inc")):
            def mk(dec, typ=typ, sg=sg, hist=hist):
                it = Interp(repo, stubs=W.base_stubs(), samples=[{"P": F(5), "E": F(100), "lev": F(2), "cp": F(101), "q1": F(1), "p1": F(90), "q2": F(2), "p2": F(80),
                                                                  "q3": F(3), "p3": F(70)}],
                            nonneg={"P", "E", "lev", "cp", "q1", "p1", "q2", "p2", "q3", "p3"}, decisions=dec)
                pos = _position(repo, typ)

                def go(it):
                    size, entry = A("P"), A("E")
                    k = 0
                    for op in hist:
                        k += 1
                        q, pr = A(f"q{k}"), A(f"p{k}")
                        if op == "inc":
                            it.call(it.getattr(pos, "_mutating_increase"), [R.const(sg) * q, pr], {})
                            entry = (entry * size + pr * q) / (size + q)
                            size = size + q
                        elif op == "red":
                            it.call(it.getattr(pos, "_mutating_reduce"), [R.const(-sg) * q, pr], {})
                            size = size - q
                        elif op == "close":
                            it.call(it.getattr(pos, "_mutating_close"), [pr], {})
                            size, entry = num(0), None
                        elif op == "open":
                            it.call(it.getattr(pos, "_mutating_open"), [R.const(sg) * q, pr], {})
                            size, entry = q, pr
                    return pos.attrs.get("entry_price"), entry, pos.attrs.get("qty"), R.const(sg) * size
                return it, go
            try:
                outs = explore(mk, 32)
            except NotInFragment as e:
                rep.undecided_item(f"C03-R9 {typ} {'+'.join(hist)}: {e}")
                continue
            for out in outs:
                key = f"{typ}|{'+'.join(hist)}"
                if out.kind != "return":
                    rep.undecided_item(f"C03-R9 {key}: raises {out.value!r}")
                    continue
                got_e, want_e, got_q, want_q = out.value
                if not (isinstance(got_e, R) and got_e.same(want_e)):
                    rep.violation(rid, f"entry|{key}", f"average entry price after {' ; '.join(hist)} ({typ}) is {got_e!r}, the average-cost account has {want_e!r}")
                if not (isinstance(got_q, R) and got_q.same(want_q)):
                    rep.violation(rid, f"size|{key}", f"position size after {' ; '.join(hist)} ({typ}) is {got_q!r}, expected {want_q!r}")
                rep.instance(rid, key, {"entry": repr(got_e)})
    rep.floor(rid, 6)


def run(repo: Repo, rep, tier: str):
    rep.guarded(check_entry_histories, repo, rep)
    from vlib import memo
    rep.guarded(memo.check, repo, rep, "C03-R8", [(FUT, "FuturesExchange"), (POSITION, "Position")], "futures ledger and position")
    rep.exhaustive = True
    rep.assume("backtest mode; sum_floats/subtract_floats modelled as exact + and -; magnitudes, prices, fee, leverage are non-negative reals")
    rep.assume("row matching in the margin tables (np.where(np.all(array == row))) is modelled on exact values: float drift of stored rows is not modelled")
    rep.guarded(check_fills, repo, rep)
    rep.guarded(check_symbols_minute_major, repo, rep)
    rep.guarded(check_qty_update, repo, rep)
    rep.guarded(check_fee, repo, rep)
    from props.c04 import check_update_qty_decimal
    rep.rule("C03-R3d", "position size arithmetic uses the exact-decimal helpers consistently with the closing test (no binary float += / -)")
    rep.guarded(check_update_qty_decimal, repo, rep, "C03-R3d")
    rep.guarded(check_margin, repo, rep)
    rep.guarded(check_margin_multi, repo, rep)
    rep.guarded(check_margin_twins, repo, rep)
    rep.undecided_item("interaction of more than two symbols (the available-margin formula is decided for one and two traded assets)")
    rep.undecided_item("float drift in row matching of the reservation tables")


CLAIM = {
    "engine": "absint",
    "technique": "symbolic effect summaries (abstract interpretation with polynomial normal forms) of Position._on_executed_order and the FuturesExchange handlers vs a reference average-cost margin account, per sign/magnitude/reduce_only case",
    "text": "Static. The fill path (Position._on_executed_order with all _mutating_* methods, estimate_PNL, estimate_average_price, "
            "charge_fee, add_realized_pnl, _update_qty) is interpreted from /repo's source for every sign pattern of position and "
            "order, magnitude relation and reduce_only flag; wallet (fee on the FILLED quantity: a reduce-only order fills at most the "
            "position it reduces), size and average entry must equal the reference account's as "
            "polynomials (hence for all quantities, prices, fees), with the right trade open/close bookkeeping and one strategy "
            "notification after the update. The three FuturesExchange handlers are interpreted on the repository's own "
            "DynamicNumpyArray tables: rejection exactly when notional/leverage exceeds the (formula-checked) available margin, "
            "no reservation left by a rejection, one row per non-reduce-only order, released by cancel/execute, margin restored "
            "exactly; the two-asset margin formula also holds for symbols whose quote part is not the settlement currency. Not decided: multi-asset interaction beyond the formula, float drift in row matching. Invalidation completeness of object-level memos in FuturesExchange / Position (R8); the available margin is read inside the fill's strategy hook and after the fill and compared with the reference account.",
    "note": "Trusted: interpreter semantics incl. the numpy table model (zeros/concatenate/delete/where/all); exact arithmetic; cells witnessed by grids.",
}
