"""C15 - indicators match their definitions (symbolic), the moving-average selector dispatches faithfully.

Decided statically:
 * trailing-window indicators: every valid output element, as an exact rational
   function / canonical opaque form of the candle inputs, equals the textbook
   definition built independently (polynomial identity => equal for ALL inputs,
   for the analysed length and period);
 * recursive smoothers: the recurrence step out[i] = a*x[i] + (1-a)*out[i-1]
   (or Wilder's form) holds as a polynomial identity, seeds are free;
 * ma(): for every matype the selector returns structurally the same series as
   the selected moving average called directly.
Not decided: value ranges / orderings / homogeneity as numeric facts, value
agreement of recursive smoothers after seed decay.
"""
from __future__ import annotations

import ast
import math
from fractions import Fraction as F

from vlib.loader import Repo, AnalysisError
from vlib import indic_run as IR
from vlib.indic_vals import NA, D, NAN, Undecided, eval_dag
from vlib.indic_sym import dag_to_R, atom_name, sym_max, sym_min, sym_abs, sym_where_pos, relu, generic
from vlib.poly import R, Op

N = 12
ONE = R.const(1)


def col(c, k):
    return R.atom(atom_name("c", k, c))


def O(k): return col(1, k)
def C(k): return col(2, k)
def H(k): return col(3, k)
def L(k): return col(4, k)
def V(k): return col(5, k)


def mx(xs): return sym_max(list(xs))
def mn(xs): return sym_min(list(xs))
def abs_of(x): return sym_abs(x)    # (canonical piecewise-linear form)
def sqrt(x): return R.atom(Op("sqrt", (x,)))
def eq(a, b, tol=1e-9): return a is not None and generic(a).approx_same(b, tol)
def tp(k): return (H(k) + L(k) + C(k)) / R.const(3)


def run_ind(repo, name, n=N, **over):
    rel = f"jesse/indicators/{name}.py"
    fn = None
    for pn, prel, pfn in IR.public_indicators(repo):
        if pn == name:
            rel, fn = prel, pfn
    if fn is None:
        raise AnalysisError(f"anchor vanished: indicator {name}")
    r = IR.run_indicator(repo, rel, fn, n, True, overrides=over)
    if r[0] != "ok":
        raise Undecided(f"{name}: {r[0]} {r[1]}")
    return dict(IR.fields_of(r[1]))


def elems(arr, memo):
    if not isinstance(arr, NA) or arr.ndim != 1:
        raise Undecided("output is not a 1-D series")
    return [None if (isinstance(x, float) and x != x) else dag_to_R(x, memo) for x in arr.data]


# ------------------------------------------------------------------ reference definitions (index -> R), p = period
def ref_sma(x, p): return lambda i: sum((x(i - j) for j in range(p)), R.const(0)) / R.const(p)
def ref_wma(x, p): return lambda i: sum((x(i - j) * R.const(p - j) for j in range(p)), R.const(0)) / R.const(p * (p + 1) // 2)
def ref_var(x, p): return lambda i: sum((x(i - j) * x(i - j) for j in range(p)), R.const(0)) / R.const(p) - (ref_sma(x, p)(i)) ** 2


WINDOWED = [
    # (indicator, params, {field: (first valid index, reference)}, description)
    ("sma", {"period": 3}, {"value": (2, ref_sma(C, 3))}, "mean of the last p closes"),
    ("sma", {"period": 4}, {"value": (3, ref_sma(C, 4))}, "mean of the last p closes"),
    ("wma", {"period": 3}, {"value": (2, ref_wma(C, 3))}, "linearly weighted mean, newest weight p"),
    ("wma", {"period": 4}, {"value": (3, ref_wma(C, 4))}, "linearly weighted mean, newest weight p"),
    ("var", {"period": 3}, {"value": (2, ref_var(C, 3))}, "population variance of the last p closes"),
    ("mom", {"period": 3}, {"value": (3, lambda i: C(i) - C(i - 3))}, "x[i] - x[i-p]"),
    ("roc", {"period": 3}, {"value": (3, lambda i: (C(i) - C(i - 3)) / C(i - 3) * R.const(100))}, "100 (x[i]-x[i-p])/x[i-p]"),
    ("typprice", {}, {"value": (0, tp)}, "(h+l+c)/3"),
    ("medprice", {}, {"value": (0, lambda i: (H(i) + L(i)) / R.const(2))}, "(h+l)/2"),
    ("avgprice", {}, {"value": (0, lambda i: (O(i) + H(i) + L(i) + C(i)) / R.const(4))}, "(o+h+l+c)/4"),
    ("wclprice", {}, {"value": (0, lambda i: (H(i) + L(i) + C(i) * R.const(2)) / R.const(4))}, "(h+l+2c)/4"),
    ("donchian", {"period": 3}, {"upperband": (2, lambda i: mx(H(i - j) for j in range(3))), "lowerband": (2, lambda i: mn(L(i - j) for j in range(3))),
                                 "middleband": (2, lambda i: (mx(H(i - j) for j in range(3)) + mn(L(i - j) for j in range(3))) / R.const(2))}, "highest high / lowest low of the last p candles"),
    ("willr", {"period": 3}, {"value": (2, lambda i: (mx(H(i - j) for j in range(3)) - C(i)) / (mx(H(i - j) for j in range(3)) - mn(L(i - j) for j in range(3))) * R.const(-100))},
     "-100 (HH - c)/(HH - LL)"),
    ("trange", {}, {"value": (1, lambda i: mx([H(i) - L(i), abs_of(H(i) - C(i - 1)), abs_of(L(i) - C(i - 1))]))}, "max(h-l, |h-pc|, |l-pc|)"),
    ("midpoint", {"period": 3}, {"value": (2, lambda i: (mx(C(i - j) for j in range(3)) + mn(C(i - j) for j in range(3))) / R.const(2))}, "(max+min)/2 of the last p closes"),
    ("midprice", {"period": 3}, {"value": (2, lambda i: (mx(H(i - j) for j in range(3)) + mn(L(i - j) for j in range(3))) / R.const(2))}, "(HH+LL)/2"),
]


def mfi_ref(p):
    def f(i):
        posf = R.const(0)
        negf = R.const(0)
        for j in range(p):
            k = i - j
            raw = tp(k) * V(k)
            d = tp(k) - tp(k - 1)
            posf = posf + sym_where_pos(d, raw, R.const(0))
            negf = negf + sym_where_pos(-d, raw, R.const(0))
        return posf, negf
    return f


def _locality(arr, first, ref, n):
    """first element whose dependence mask is not inside the set of candles its reference definition mentions"""
    import re as _re
    if not isinstance(arr, NA) or arr.ndim != 1:
        return None
    extras = []
    for i in range(first, min(n, len(arr.data))):
        x = arr.data[i]
        if not isinstance(x, D):
            continue
        want = ref(i)
        allowed = 0
        for a in _atoms_deep(want):
            m = _re.fullmatch(r"(?:[a-z]+_)?[a-z]+?(\d+)", a) if isinstance(a, str) else None
            if m:
                allowed |= 1 << int(m.group(1))
        extra = x.m & ~allowed
        if allowed and extra:
            extras.append((i, extra))
    # a fixed reference point outside the window (the series centred on its first value) is harmless; what is reported is a set of
    # out-of-window candles that GROWS with the position - sums over the history whose old terms are meant to cancel
    if len(extras) >= 2:
        (i1, e1), (i2, e2) = extras[0], extras[-1]
        n1, n2 = bin(e1).count("1"), bin(e2).count("1")
        if n2 > n1 and n2 >= 3:
            return i2, [k for k in range(e2.bit_length()) if e2 >> k & 1][:6]
    return None


def _atoms_deep(r):
    out = set()
    stack = [r]
    while stack:
        x = stack.pop()
        if isinstance(x, R):
            for a in x.atoms():
                if isinstance(a, Op):
                    stack.extend(a.args)
                else:
                    out.add(a)
        elif isinstance(x, Op):
            stack.extend(x.args)
    return out


def compare_series(rep, rid, name, params, field, got, first, ref, n, desc):
    bad = None
    checked = 0
    for i in range(first, n):
        want = ref(i)
        g = got[i]
        checked += 1
        if not eq(g, want):
            bad = (i, g, want)
            break
    key = f"{name}|{field}"
    if bad:
        i, g, want = bad
        rep.violation(rid, key, f"{name}({params}) field '{field}', element {i}: {str(g)[:160]} differs from the definition ({desc}): {str(want)[:160]}",
                      {"indicator": name, "params": params, "index": i})
    rep.instance(rid, f"{key}|{params}", {"indicator": name, "params": params, "field": field, "elements_compared": checked, "definition": desc})


def check_windowed(repo, rep):
    rid = "C15-R2"
    rep.rule(rid, "trailing-window indicators: each valid output element equals the textbook definition as a symbolic identity in the "
                  "candle inputs (exact rational normal form; comparisons / max / min / abs as canonical opaque atoms), for n = 12 and small periods")
    for name, params, fields, desc in WINDOWED:
        try:
          if True:
            out = run_ind(repo, name, **params)
            memo = {}
            for field, (first, ref) in fields.items():
                if field not in out:
                    rep.violation(rid, f"{name}|{field}", f"{name} does not return a field '{field}'")
                    continue
                # window locality first (cheap, and it holds or fails whatever the arithmetic): element i may depend only on the
                # candles its definition mentions - a value built from sums over the whole history (a running sum whose old terms
                # "cancel") is a function of the trailing window in exact arithmetic only
                loc = _locality(out[field], first, ref, N)
                if loc is not None:
                    i, extra = loc
                    rep.violation(rid, f"{name}|{field}|locality", f"{name}({params}) field '{field}', element {i} depends on candle(s) {extra} .. outside the window of its definition "
                                                                  f"({desc}), and on more of them the further the series goes: the value is not a function of the trailing window (sums over the whole history only cancel in exact arithmetic)")
                    continue
                compare_series(rep, rid, name, params, field, elems(out[field], memo), first, ref, N, desc)
        except Undecided as e:
            rep.undecided_item(f"{name} {params}: {e}")
    # standard deviation / Bollinger: value^2 == variance, bands = sma +- k * std
    try:
        out = run_ind(repo, "stddev", period=3)
        g = elems(out["value"], {})
        for i in range(2, N):
            want = ref_var(C, 3)(i)
            sq = g[i] * g[i] if g[i] is not None else None
            ok = g[i] is not None and (eq(g[i], sqrt(want)) or _sqrt_arg_same(generic(g[i]), want))
            if not ok:
                rep.violation(rid, "stddev|value", f"stddev(period=3) element {i}: {str(g[i])[:140]} is not sqrt(population variance) = sqrt({str(want)[:120]})")
                break
        rep.instance(rid, "stddev|value|{'period': 3}", {"definition": "sqrt(mean(x^2) - mean(x)^2)"})
    except Undecided as e:
        rep.undecided_item(f"stddev: {e}")
    try:
        out = run_ind(repo, "bollinger_bands", period=3)
        memo = {}
        up, mid, lo = elems(out["upperband"], memo), elems(out["middleband"], memo), elems(out["lowerband"], memo)
        for i in range(2, N):
            m = ref_sma(C, 3)(i)
            if not eq(mid[i], m):
                rep.violation(rid, "bollinger_bands|middleband", f"bollinger middle band element {i} is not the simple moving average")
                break
            dev_up, dev_lo = up[i] - mid[i], mid[i] - lo[i]
            if not generic(dev_up).approx_same(generic(dev_lo)):
                rep.violation(rid, "bollinger_bands|symmetry", f"bollinger bands are not symmetric around the middle band at element {i}")
                break
            if not _sqrt_arg_same(_clamp0(generic(dev_up / R.const(2))), ref_var(C, 3)(i)):
                rep.violation(rid, "bollinger_bands|deviation", f"bollinger band distance at element {i} is {str(dev_up)[:140]}, expected 2 * population standard deviation")
                break
        rep.instance(rid, "bollinger_bands|{'period': 3}", {"definition": "sma +- 2 std"})
    except Undecided as e:
        rep.undecided_item(f"bollinger_bands: {e}")
    # money flow index: positive / negative flow split (strict comparisons of the typical price)
    try:
        out = run_ind(repo, "mfi", period=3)
        g = elems(out["value"], {})
        for i in range(3, N):
            pf, nf = mfi_ref(3)(i)
            want = R.const(100) - R.const(100) / (ONE + pf / nf)
            alt = R.const(100) * pf / (pf + nf)
            if not (eq(g[i], want) or eq(g[i], alt)):
                rep.violation(rid, "mfi|value", f"mfi(period=3) element {i}: {str(g[i])[:200]} differs from 100 - 100/(1 + PMF/NMF) with strictly rising / falling typical price flows")
                break
        rep.instance(rid, "mfi|value|{'period': 3}", {"definition": "100 - 100/(1 + sum(pos flow)/sum(neg flow)), flows split by strict tp comparison"})
    except Undecided as e:
        rep.undecided_item(f"mfi: {e}")
    # commodity channel index
    try:
        p3 = 3
        out = run_ind(repo, "cci", period=p3)
        g = elems(out["value"], {})
        for i in range(p3 - 1, N):
            sma_ = sum((tp(i - j) for j in range(p3)), R.const(0)) / R.const(p3)
            md = sum((abs_of(tp(i - j) - sma_) for j in range(p3)), R.const(0)) / R.const(p3)
            want = (tp(i) - sma_) / (R.const("0.015") * md)
            if not eq(g[i], want):
                rep.violation(rid, "cci|value", f"cci(period=3) element {i}: {str(g[i])[:200]} differs from (tp - sma(tp)) / (0.015 * mean absolute deviation)")
                break
        rep.instance(rid, "cci|value|{'period': 3}", {"definition": "(tp - sma)/(0.015*mean|tp - sma|)"})
    except Undecided as e:
        rep.undecided_item(f"cci: {e}")
    # fast stochastic %K and its %D = sma(%K)
    try:
        out = run_ind(repo, "stochf", fastk_period=3, fastd_period=2)
        memo = {}
        k, d = elems(out["k"], memo), elems(out["d"], memo)
        for i in range(2, N):
            hh, ll = mx(H(i - j) for j in range(3)), mn(L(i - j) for j in range(3))
            want = (C(i) - ll) / (hh - ll) * R.const(100)
            if not eq(k[i], want):
                rep.violation(rid, "stochf|k", f"stochf %K element {i}: {str(k[i])[:160]} differs from 100 (c - LL)/(HH - LL)")
                break
        for i in range(3, N):
            if k[i] is None or k[i - 1] is None or d[i] is None:
                continue
            if not generic(d[i]).approx_same((generic(k[i]) + generic(k[i - 1])) / R.const(2)):
                rep.violation(rid, "stochf|d", f"stochf %D element {i} is not the 2-period simple average of %K")
                break
        rep.instance(rid, "stochf|{'fastk_period': 3, 'fastd_period': 2}", {"definition": "%K = 100 (c-LL)/(HH-LL); %D = sma(%K)"})
    except Undecided as e:
        rep.undecided_item(f"stochf: {e}")
    # keltner: middle = ema(close), bands = middle +- multiplier * atr  (siblings: the repository's own ema / atr series)
    try:
        out = run_ind(repo, "keltner", period=3, multiplier=2)
        memo = {}
        up, mid, lo = elems(out["upperband"], memo), elems(out["middleband"], memo), elems(out["lowerband"], memo)
        e_ = elems(run_ind(repo, "ema", period=3)["value"], {})
        a_ = elems(run_ind(repo, "atr", period=3)["value"], {})
        for i in range(3, N):
            if any(x[i] is None for x in (up, mid, lo, e_, a_)):
                continue
            if not eq(mid[i], generic(e_[i])):
                rep.violation(rid, "keltner|middleband", f"keltner middle band element {i} is not ema(close, period)")
                break
            if not eq(up[i] - mid[i], generic(a_[i]) * R.const(2)) or not eq(mid[i] - lo[i], generic(a_[i]) * R.const(2)):
                rep.violation(rid, "keltner|bands", f"keltner bands at element {i} are not middle +- multiplier * atr: up-mid = {str(up[i] - mid[i])[:120]}")
                break
        rep.instance(rid, "keltner|{'period': 3}", {"definition": "ema +- multiplier*atr"})
    except Undecided as e:
        rep.undecided_item(f"keltner: {e}")
    # dema / tema: compositions of one EMA recurrence
    for nm, combo in (("dema", lambda e1, e2, e3: e1 * R.const(2) - e2), ("tema", lambda e1, e2, e3: e1 * R.const(3) - e2 * R.const(3) + e3)):
        try:
            g = elems(run_ind(repo, nm, period=3)["value"], {})
            a = R.const(F(2, 4))
            x = [C(i) for i in range(N)]

            def ema_(xs):
                o = [xs[0]]
                for i in range(1, len(xs)):
                    o.append(a * xs[i] + (ONE - a) * o[-1])
                return o
            e1 = ema_(x)
            e2 = ema_(e1)
            e3 = ema_(e2)
            # seed-independent form: with b = 1-a and z the one-step delay,
            #   dema: (1-bz)^2 g = (2a(1-bz) - a^2) x        tema: (1-bz)^3 g = (3a(1-bz)^2 - 3a^2(1-bz) + a^3) x
            b = ONE - a

            def delay_poly(coefs, series, i):
                return sum((R.const(cf) * series[i - k] if not isinstance(cf, R) else cf * series[i - k] for k, cf in enumerate(coefs)), R.const(0))
            if nm == "dema":
                lhs_c = [ONE, -b * R.const(2), b * b]
                rhs_c = [a * R.const(2) - a * a, -a * b * R.const(2)]
            else:
                lhs_c = [ONE, -b * R.const(3), b * b * R.const(3), -b * b * b]
                rhs_c = [a * R.const(3) - a * a * R.const(3) + a * a * a, -a * b * R.const(6) + a * a * b * R.const(3), a * b * b * R.const(3)]
            bad = None
            for i in range(len(lhs_c) - 1, N):
                if any(g[i - k] is None for k in range(len(lhs_c))):
                    continue
                if not generic(delay_poly(lhs_c, [generic(v) if v is not None else None for v in g], i)).approx_same(delay_poly(rhs_c, x, i)):
                    bad = i
                    break
            if bad is not None:
                rep.violation(rid, f"{nm}|value", f"{nm}(period=3) element {bad} does not satisfy the {nm} filter recurrence ({'2*ema - ema(ema)' if nm == 'dema' else '3*ema - 3*ema(ema) + ema(ema(ema))'}, alpha=2/(period+1))")
            ok = all(g[i] is not None and eq(g[i], combo(e1[i], e2[i], e3[i])) for i in range(N))
            rep.instance(rid, f"{nm}|{{'period': 3}}", {"definition": "2*ema - ema(ema)" if nm == "dema" else "3*ema - 3*ema(ema) + ema(ema(ema))", "matches_first_value_seed": ok})
        except Undecided as e:
            rep.undecided_item(f"{nm}: {e}")
    # macd: signal line is the EMA recurrence of the macd line, hist = macd - signal
    try:
        out = run_ind(repo, "macd", fast_period=2, slow_period=3, signal_period=2)
        memo = {}
        m_, s_, h_ = elems(out["macd"], memo), elems(out["signal"], memo), elems(out["hist"], memo)
        a = R.const(F(2, 3))
        for i in range(2, N):
            if not eq(s_[i], a * generic(m_[i]) + (ONE - a) * generic(s_[i - 1])):
                rep.violation(rid, "macd|signal", f"macd signal element {i} is not the EMA recurrence of the macd line (alpha 2/(signal_period+1))")
                break
            if not eq(h_[i], generic(m_[i]) - generic(s_[i])):
                rep.violation(rid, "macd|hist", f"macd histogram element {i} is not macd - signal")
                break
        # the macd line itself: difference of two EMA recurrences (alpha 2/3 and 1/2) - checked through its own 2nd order recurrence being awkward, we compare with first-value seeding
        x = [C(i) for i in range(N)]

        def ema_a(al):
            o = [x[0]]
            for i in range(1, N):
                o.append(al * x[i] + (ONE - al) * o[-1])
            return o
        ef, es = ema_a(R.const(F(2, 3))), ema_a(R.const(F(2, 4)))
        okm = all(eq(m_[i], ef[i] - es[i]) for i in range(N))
        if not okm:
            rep.undecided_item("macd line: not the first-value-seeded ema_fast - ema_slow (different seeding?)")
        rep.instance(rid, "macd|{'fast': 2, 'slow': 3, 'signal': 2}", {"macd_line_first_value_seed": okm})
    except Undecided as e:
        rep.undecided_item(f"macd: {e}")
    # on-balance volume: step
    try:
        out = run_ind(repo, "obv")
        g = elems(out["value"], {})
        for i in range(1, N):
            d = C(i) - C(i - 1)
            step = g[i] - g[i - 1]
            want = sym_where_pos(d, V(i), sym_where_pos(-d, -V(i), R.const(0)))
            alts = [want, sym_where_pos(-d, -V(i), sym_where_pos(d, V(i), R.const(0))), V(i) * R.atom(Op("sign", (d,)))]
            if not any(generic(step).approx_same(a) for a in alts):
                rep.violation(rid, "obv|step", f"obv step at element {i} is {str(step)[:160]}, expected +volume / -volume / 0 by the sign of the close change")
                break
        rep.instance(rid, "obv|step", {"definition": "obv[i]-obv[i-1] = sign(c[i]-c[i-1]) * v[i]"})
    except Undecided as e:
        rep.undecided_item(f"obv: {e}")
    rep.floor(rid, 15)


def _clamp0(x: R) -> R:
    """sqrt(max(v, 0)) guards against tiny negative variances: v >= 0 for a variance, so drop the clamp"""
    sm = x.n.single_monomial()
    if sm and x.d.is_const():
        m, c = sm
        if len(m) == 1 and m[0][1] == 1 and isinstance(m[0][0], Op) and m[0][0].name == "sqrt":
            arg = m[0][0].args[0]
            # relu(v) (canonical: relu(y) [- y]) -> v
            for at in arg.atoms():
                if isinstance(at, Op) and at.name == "relu":
                    y = at.args[0]
                    for cand in (y, -y):
                        if relu(cand).same(arg):
                            return R(x.n.scale(0)) + R.atom(Op("sqrt", (cand,))) * R.const(c / x.d.const_value())
    return x


def _sqrt_arg_same(x: R, want_sq: R) -> bool:
    """x is sqrt(want_sq) up to normal form: x == sqrt-atom whose argument equals want_sq"""
    sm = x.n.single_monomial()
    if sm and x.d.is_const():
        m, c = sm
        if len(m) == 1 and m[0][1] == 1 and isinstance(m[0][0], Op) and m[0][0].name == "sqrt":
            k = c / x.d.const_value()
            arg = m[0][0].args[0]
            return (arg * R.const(k * k)).approx_same(want_sq)
    return False


def check_recurrences(repo, rep):
    rid = "C15-R3"
    rep.rule(rid, "recursive smoothers: the recurrence step holds as a polynomial identity from the first smoothed element on "
                  "(ema: out[i] = a x[i] + (1-a) out[i-1], a = 2/(p+1); smma / wilders / rma-style: out[i] = (out[i-1](p-1) + x[i])/p; "
                  "atr: Wilder smoothing of the true range; rsi: Wilder smoothing of gains and losses); seeds are free")
    p = 3
    cases = [("ema", {"period": p}, F(2, p + 1), p), ("wilders", {"period": p}, F(1, p), p)]
    for name, params, alpha, start in cases:
        try:
            out = run_ind(repo, name, **params)
            g = elems(out["value"], {})
            a = R.const(alpha)
            n_ok = 0
            for i in range(start, N):
                if g[i] is None or g[i - 1] is None:
                    continue
                want = a * C(i) + (ONE - a) * g[i - 1]
                n_ok += 1
                if not eq(g[i], want):
                    rep.violation(rid, f"{name}|step", f"{name}(period={p}) element {i} is not {alpha}*x[i] + {1 - alpha}*out[i-1]: {str(g[i])[:140]}")
                    break
            if n_ok < 5:
                rep.violation(rid, f"{name}|coverage", f"{name}: fewer than 5 recurrence steps could be compared")
            rep.instance(rid, f"{name}|step", {"alpha": str(alpha), "steps": n_ok})
        except Undecided as e:
            rep.undecided_item(f"{name}: {e}")
    # atr: Wilder smoothing of the true range
    try:
        out = run_ind(repo, "atr", period=p)
        g = elems(out["value"], {})
        n_ok = 0
        for i in range(p + 1, N):
            if g[i] is None or g[i - 1] is None:
                continue
            tr = mx([H(i) - L(i), abs_of(H(i) - C(i - 1)), abs_of(L(i) - C(i - 1))])
            want = (g[i - 1] * R.const(p - 1) + tr) / R.const(p)
            n_ok += 1
            if not eq(g[i], want):
                rep.violation(rid, "atr|step", f"atr(period={p}) element {i} is not (atr[i-1]*(p-1) + true range)/p: {str(g[i])[:160]}")
                break
        if n_ok < 4:
            rep.violation(rid, "atr|coverage", "atr: fewer than 4 recurrence steps could be compared")
        rep.instance(rid, "atr|step", {"steps": n_ok})
    except Undecided as e:
        rep.undecided_item(f"atr: {e}")
    # rsi: 100 - 100/(1+RS) with Wilder-smoothed gains/losses: check through RS = (100/(100-rsi)) - 1 step is awkward;
    # instead compare with the reference recursion seeded with simple means of the first p changes (the common definition)
    try:
        out = run_ind(repo, "rsi", period=p)
        g = elems(out["value"], {})
        gains = [None] + [relu(C(i) - C(i - 1)) for i in range(1, N)]
        losses = [None] + [relu(C(i - 1) - C(i)) for i in range(1, N)]
        ag = sum((gains[k] for k in range(1, p + 1)), R.const(0)) / R.const(p)
        al = sum((losses[k] for k in range(1, p + 1)), R.const(0)) / R.const(p)
        n_ok = 0
        for i in range(p, N):
            if i > p:
                ag = (ag * R.const(p - 1) + gains[i]) / R.const(p)
                al = (al * R.const(p - 1) + losses[i]) / R.const(p)
            want = R.const(100) - R.const(100) / (ONE + ag / al)
            alt = R.const(100) * ag / (ag + al)
            if g[i] is None:
                continue
            n_ok += 1
            if not (eq(g[i], want) or eq(g[i], alt)):
                rep.violation(rid, "rsi|value", f"rsi(period={p}) element {i} differs from Wilder's RSI (100 - 100/(1+avg gain/avg loss)): {str(g[i])[:200]}")
                break
        if n_ok < 4:
            rep.undecided_item("rsi: fewer than 4 elements comparable")
        rep.instance(rid, "rsi|value", {"elements": n_ok})
    except Undecided as e:
        rep.undecided_item(f"rsi: {e}")
    rep.floor(rid, 4)


def _strip_where(x: R) -> R:
    """where(den == 0, const, expr) guards against division by zero: compare the generic branch"""
    sm = x.n.single_monomial()
    if sm and x.d.is_const():
        m, c = sm
        if len(m) == 1 and m[0][1] == 1 and isinstance(m[0][0], Op) and m[0][0].name == "where" and c == x.d.const_value():
            cnd, a, b = m[0][0].args
            cands = [y for y in (a, b) if not y.is_const()]
            if len(cands) == 1:
                return _strip_where(cands[0])
    return x


def check_ma_selector(repo, rep):
    rid = "C15-R1"
    rep.rule(rid, "ma(): for every matype of its own documented table the selector returns structurally the same series as the "
                  "selected moving average called directly with the same period / source (equal structural hash of every element); "
                  "undocumented numbers raise")
    from vlib.indic_vals import hid, eval_dag, D
    mod = repo.module("jesse/indicators/ma.py")
    fn = repo.func("jesse/indicators/ma.py", "ma")
    # the dispatch table: matype == k branches calling <name>(...)
    table = {}
    for node in ast.walk(fn):
        if isinstance(node, ast.If) and isinstance(node.test, ast.Compare) and isinstance(node.test.left, ast.Name) and node.test.left.id == "matype" \
                and isinstance(node.test.ops[0], ast.Eq) and isinstance(node.test.comparators[0], ast.Constant):
            k = node.test.comparators[0].value
            calls = [c for s in node.body for c in ast.walk(s) if isinstance(c, ast.Call) and isinstance(c.func, ast.Name)]
            names = [c.func.id for c in calls if c.func.id not in ("ValueError", "len", "get_candle_source", "slice_candles", "isinstance")]
            if names:
                table[k] = names[0]
    if len(table) < 25:
        raise AnalysisError(f"ma(): only {len(table)} matype branches recognised")
    pubs = {pn: (prel, pfn) for pn, prel, pfn in IR.public_indicators(repo)}
    n = 70
    for k, target in sorted(table.items()):
        try:
            r1 = IR.run_indicator(repo, "jesse/indicators/ma.py", fn, n, True, overrides={"matype": k, "period": 5})
            if target not in pubs:
                rep.undecided_item(f"ma matype {k}: target {target} is not a public indicator")
                continue
            trel, tfn = pubs[target]
            tparams = [a.arg for a in tfn.args.args]
            over = {"period": 5} if "period" in tparams else {}
            if "source_type" in tparams:
                over["source_type"] = "close"
            r2 = IR.run_indicator(repo, trel, tfn, n, True, overrides=over)
            if r1[0] == "raises" and r2[0] == "raises":
                rep.instance(rid, f"matype={k}", {"matype": k, "target": target, "both": "raise"})
                continue
            if r1[0] != "ok" or r2[0] != "ok":
                rep.undecided_item(f"ma matype {k} ({target}): {r1[0]} / {r2[0]} {str(r1[1])[:40]}")
                continue
            a, b = r1[1], r2[1]
            if not (isinstance(a, NA) and isinstance(b, NA) and a.ndim == 1 and b.ndim == 1):
                rep.undecided_item(f"ma matype {k} ({target}): non-series result")
                continue
            if len(a.data) != len(b.data) or any(hid(x) != hid(y) for x, y in zip(a.data, b.data)):
                idx = next((i for i, (x, y) in enumerate(zip(a.data, b.data)) if hid(x) != hid(y)), None)
                rep.violation(rid, f"ma|matype={k}", f"ma(matype={k}) does not return what {target}() returns for the same arguments (first differing element {idx}, lengths {len(a.data)}/{len(b.data)})")
            rep.instance(rid, f"matype={k}", {"matype": k, "target": target})
            # single value on an input longer than the warm-up window: the selector must slice exactly as the selected average does
            NLs, Ws = 90, 60
            r3 = IR.run_indicator(repo, "jesse/indicators/ma.py", fn, NLs, False, warmup=Ws, overrides={"matype": k, "period": 5})
            r4 = IR.run_indicator(repo, trel, tfn, NLs, False, warmup=Ws, overrides=over)
            if r3[0] == "ok" and r4[0] == "ok" and isinstance(r3[1], D) and isinstance(r4[1], D):
                if hid(r3[1]) != hid(r4[1]):
                    wit = None
                    try:
                        for vn, val in IR.valuations(NLs):
                            x, y = eval_dag(r3[1], val), eval_dag(r4[1], val)
                            if x is not None and y is not None and not ((x != x and y != y) or abs(x - y) <= 1e-9 * max(1.0, abs(x), abs(y))):
                                wit = (vn, x, y)
                                break
                    except Undecided:
                        wit = None
                    if wit:
                        rep.violation(rid, f"ma|matype={k}|single-value", f"ma(matype={k}, sequential=False) on an input longer than the warm-up window differs from "
                                                                            f"{target}(sequential=False) (valuation '{wit[0]}': {wit[1]!r} vs {wit[2]!r}): the selector does not slice the input as the selected average does")
                    else:
                        rep.undecided_item(f"ma matype {k}: single value on a long input is computed differently from {target}() but agrees on the witness valuations")
                rep.instance(rid, f"matype={k}|long-single", None)
            # the same on a plain 1-D series (the averages accept one instead of candles)
            r5 = IR.run_indicator(repo, "jesse/indicators/ma.py", fn, NLs, False, warmup=Ws, overrides={"matype": k, "period": 5}, one_d=True)
            r6 = IR.run_indicator(repo, trel, tfn, NLs, False, warmup=Ws, overrides=over, one_d=True)
            if r5[0] == "ok" and r6[0] == "ok" and isinstance(r5[1], D) and isinstance(r6[1], D) and hid(r5[1]) != hid(r6[1]):
                wit = None
                try:
                    for vn, val in IR.valuations(NLs):
                        x, y = eval_dag(r5[1], val), eval_dag(r6[1], val)
                        if x is not None and y is not None and not ((x != x and y != y) or abs(x - y) <= 1e-9 * max(1.0, abs(x), abs(y))):
                            wit = (vn, x, y)
                            break
                except Undecided:
                    wit = None
                if wit:
                    rep.violation(rid, f"ma|matype={k}|single-value-1d", f"ma(series, matype={k}, sequential=False) on a 1-D series longer than the warm-up window differs from "
                                                                           f"{target}(series, sequential=False) (valuation '{wit[0]}': {wit[1]!r} vs {wit[2]!r}): the selector slices a 1-D input, the selected average does not")
            if r5[0] == "ok" and r6[0] == "ok":
                rep.instance(rid, f"matype={k}|long-single-1d", None)
        except Undecided as e:
            rep.undecided_item(f"ma matype {k}: {e}")
    # an undocumented number raises
    r = IR.run_indicator(repo, "jesse/indicators/ma.py", fn, n, True, overrides={"matype": 997, "period": 5})
    unbound = r[0] == "undecided" and "unknown name" in str(r[1])      # the result variable is never bound: UnboundLocalError in CPython
    if r[0] != "raises" and not unbound:
        rep.violation(rid, "ma|unknown-matype", f"ma(matype=997) does not raise ({r[0]} {str(r[1])[:80]})")
    rep.instance(rid, "unknown-matype")
    rep.floor(rid, 25)


# ------------------------------------------------------------------ R3: definitions compared on witness valuations
def _wilder_refs(val, n, p):
    """textbook Wilder directional movement system on one valuation (plain floats): returns dict name -> list (None before defined)"""
    H = [val("c", k, 3) for k in range(n)]
    L = [val("c", k, 4) for k in range(n)]
    C = [val("c", k, 2) for k in range(n)]
    pdm, mdm, tr = [None], [None], [None]
    for k in range(1, n):
        up, dn = H[k] - H[k - 1], L[k - 1] - L[k]
        pdm.append(up if (up > dn and up > 0) else 0.0)
        mdm.append(dn if (dn > up and dn > 0) else 0.0)
        tr.append(max(H[k] - L[k], abs(H[k] - C[k - 1]), abs(L[k] - C[k - 1])))

    def wilder_sum(x):          # Wilder's running sum: seed = sum of the first p, then S - S/p + x
        out = [None] * n
        if n > p:
            out[p] = sum(x[1:p + 1])
            for k in range(p + 1, n):
                out[k] = out[k - 1] - out[k - 1] / p + x[k]
        return out
    sp, sm, st = wilder_sum(pdm), wilder_sum(mdm), wilder_sum(tr)
    pdi = [None if st[k] is None else (0.0 if st[k] == 0 else 100.0 * sp[k] / st[k]) for k in range(n)]
    mdi = [None if st[k] is None else (0.0 if st[k] == 0 else 100.0 * sm[k] / st[k]) for k in range(n)]
    # ADX: DX = 100 |+DI - -DI| / (+DI + -DI) (0 when the sum is 0); first ADX = mean of the first p DX values, then Wilder's average
    dx = [None if pdi[k] is None else (0.0 if (pdi[k] + mdi[k]) == 0 else 100.0 * abs(pdi[k] - mdi[k]) / (pdi[k] + mdi[k])) for k in range(n)]
    adx = [None] * n
    if 2 * p < n:
        adx[2 * p] = sum(dx[p:2 * p]) / p
        for k in range(2 * p + 1, n):
            adx[k] = (adx[k - 1] * (p - 1) + dx[k]) / p
    # TRIMA: simple average of a simple average (triangular weights)
    a, b = ((p + 1) // 2, (p + 1) // 2) if p % 2 else (p // 2, p // 2 + 1)
    s1 = [None if k < a - 1 else sum(C[k - a + 1:k + 1]) / a for k in range(n)]
    trima = [None if k < a + b - 2 else sum(s1[k - b + 1:k + 1]) / b for k in range(n)]
    refs = {"dm.plus": sp, "dm.minus": sm, "di.plus": pdi, "di.minus": mdi, "adx.value": adx, "trima.value": trima}
    # ADXR = (ADX today + ADX n bars ago) / 2 (Wilder: n = p; TA-Lib: n = p - 1) - both accepted
    for lag in (p, p - 1):
        refs[f"adxr.value#{lag}"] = [None if (adx[k] is None or k - lag < 0 or adx[k - lag] is None) else (adx[k] + adx[k - lag]) / 2 for k in range(n)]
    # power-weighted averages over the last p bars: weight (p - i)^e for the bar i steps back, i = 0..p-1
    def pw(e, off=0):
        out = [None] * n
        for k in range(p + off + 1, n):        # (the repository starts its output there; earlier entries are a warm-up convention)
            ws = [(p - i - off) if e is None else (p - i) ** e for i in range(p)]
            if sum(ws) == 0:
                continue
            out[k] = sum(C[k - i] * w for i, w in enumerate(ws)) / sum(ws)
        return out
    refs["srwma.value"], refs["sqwma.value"], refs["cwma.value"] = pw(0.5), pw(2), pw(3)
    refs["vpwma.value"] = pw(0.382)
    refs["epma.value"] = pw(None, off=2)
    # natural moving average (Jim Sloman): ratio = sum |dln_i| (sqrt(i+1) - sqrt(i)) / sum |dln_i| over the last p log changes,
    # value = price_t * ratio + price_{t-1} * (1 - ratio)
    nma = [None] * n
    for k in range(p + 1, n):
        num = den = 0.0
        for i in range(p):
            oi = abs(math.log(C[k - i]) - math.log(C[k - i - 1]))
            num += oi * (math.sqrt(i + 1) - math.sqrt(i))
            den += oi
        r = num / den if den else 0.0
        nma[k] = C[k] * r + C[k - 1] * (1 - r)
    refs["nma.value"] = nma
    return refs


def check_witness_definitions(repo, rep):
    rid = "C15-R3"
    rep.rule(rid, "Wilder's directional movement system (dm, di, adx) and trima: the extracted expression of every output element is evaluated on six "
                  "adversarial candle valuations and compared with the textbook definition computed independently (+DM / -DM, true "
                  "range, Wilder running sums seeded with the sum of the first p values, DI = 100 * smoothed DM / smoothed TR, hence "
                  "inside [0, 100]; DX and ADX with the mean of the first p DX values as seed; trima = simple average of a simple average); a numerical difference is a counterexample, agreement is reported as agreement on the witnesses")
    n = 16
    for p in (3, 4):
      for name, fields in (("dm", ("plus", "minus")), ("di", ("plus", "minus")), ("adx", ("value",)), ("trima", ("value",)), ("adxr", ("value",)),
                           ("srwma", ("value",)), ("sqwma", ("value",)), ("cwma", ("value",)), ("vpwma", ("value",)), ("epma", ("value",)), ("nma", ("value",))):
          try:
              out = run_ind(repo, name, n=n, period=p, **({"offset": 2} if name == "epma" else {}))
          except Undecided as e:
              rep.undecided_item(f"{name}: {e}")
              continue
          for f in fields:
              arr = out.get(f)
              if not isinstance(arr, NA) or arr.ndim != 1 or len(arr.data) != n:
                  rep.undecided_item(f"{name}.{f}: output is not a series of {n} entries")
                  continue
              bad = None
              for vn, val in IR.valuations(n):
                  allrefs = _wilder_refs(val, n, p)
                  cands = [v for kk, v in allrefs.items() if kk == f"{name}.{f}" or kk.startswith(f"{name}.{f}#")]
                  if len(cands) > 1:
                      # several accepted conventions: take the one that agrees (if any), else report against the first
                      def agrees(rf):
                          for i_ in range(n):
                              if rf[i_] is None:
                                  continue
                              try:
                                  g_ = eval_dag(arr.data[i_], val)
                              except Undecided:
                                  return False
                              if g_ is None or (isinstance(g_, float) and g_ != g_) or abs(g_ - rf[i_]) > 1e-9 * max(1.0, abs(rf[i_])):
                                  return False
                          return True
                      cands = [c for c in cands if agrees(c)] or cands[:1]
                  ref = cands[0]
                  for i in range(n):
                      try:
                          g = eval_dag(arr.data[i], val)
                      except Undecided as e:
                          g = None
                      r = ref[i]
                      gn = g is None or (isinstance(g, float) and g != g)
                      if r is None:
                          continue            # before the definition starts: the warm-up convention is not part of the definition
                      if gn or abs(g - r) > 1e-9 * max(1.0, abs(r)):
                          bad = (vn, i, g, r)
                          break
                      if name == "di" and not (-1e-9 <= g <= 100 + 1e-9):
                          bad = (vn, i, g, "a value in [0, 100]")
                          break
                  if bad:
                      break
              if bad:
                  rep.violation(rid, f"{name}|{f}", f"{name}(period={p}).{f} element {bad[1]} is {bad[2]!r} on the valuation '{bad[0]}', the definition gives {bad[3]!r}")
              rep.instance(rid, f"{name}|{f}|p={p}", {"indicator": name, "field": f, "period": p, "agrees_on_witnesses": bad is None})
    rep.floor(rid, 8)


def check_nan_poisoning(repo, rep):
    rid = "C15-R4"
    rep.rule(rid, "selectable moving averages: for every indicator with a matype-style parameter, choosing a recursive average (1 = ema) "
                  "must not turn the series into NaN: the last element of the sequential series, evaluated on the witness valuations, is "
                  "a number whenever it is one with the default average (a recursive average seeded on the NaN warm-up of its input never "
                  "recovers)")
    from props.c13 import ma_params
    n = 90
    cnt = 0
    for name, rel, fn in IR.public_indicators(repo):
        mt = ma_params(fn)
        if not mt or not any(a.arg == "sequential" for a in fn.args.args):
            continue
        r0 = IR.run_indicator(repo, rel, fn, n, True, overrides={})
        r1 = IR.run_indicator(repo, rel, fn, n, True, overrides={k: 1 for k in mt})
        if r0[0] != "ok" or r1[0] != "ok":
            rep.undecided_item(f"{name}: matype variant not interpretable ({r0[0]} / {r1[0]})")
            continue
        f0, f1 = dict(IR.fields_of(r0[1])), dict(IR.fields_of(r1[1]))
        for f in f0:
            a, b = f0[f], f1.get(f)
            if not (isinstance(a, NA) and isinstance(b, NA) and a.ndim == 1 and b.ndim == 1 and a.data and b.data):
                continue
            try:
                num0 = nan1 = 0
                vals = IR.valuations(n)
                for vn, val in vals:
                    x, y = eval_dag(a.data[-1], val), eval_dag(b.data[-1], val)
                    if isinstance(x, float) and x == x:
                        num0 += 1
                        if y is None or (isinstance(y, float) and y != y):
                            nan1 += 1
            except Undecided as e:
                rep.undecided_item(f"{name}.{f}: {e}")
                continue
            cnt += 1
            if num0 and nan1 == num0:
                rep.violation(rid, f"{name}|{f}|matype=ema", f"{name}({', '.join(k + '=1' for k in mt)}): the last entry of series '{f}' is NaN on every witness valuation although it is a "
                                                            f"number with the default moving average - the recursive average is seeded on NaN warm-up values and never recovers")
            rep.instance(rid, f"{name}|{f}", {"indicator": name, "field": f, "numeric_with_default": num0, "nan_with_ema": nan1})
    rep.floor(rid, 15)


def check_constant_reproduced(repo, rep):
    rid = "C15-R5"
    rep.rule(rid, "every finite-window linear moving average of the selector reproduces a constant series: the expression of each element of "
                  "ma(period=5 / 14, matype=k, sequential=True), evaluated on the constant valuation (every price = c, for two values of "
                  "c; volume constant), is c - or NaN while the average is not defined yet.  For a linear filter this says that its weights "
                  "sum to one at every position, warm-up included (a warm-up that is filled with zeros instead of NaN gives numbers that "
                  "are no average of anything)")
    from vlib.indic_vals import eval_dag, D
    fn = repo.func("jesse/indicators/ma.py", "ma")
    types = sorted({c.comparators[0].value for n_ in ast.walk(fn) if isinstance(n_, ast.If) for c in ([n_.test] if isinstance(n_.test, ast.Compare) else
                                                                                                         (n_.test.values if isinstance(n_.test, ast.BoolOp) else []))
                    if isinstance(c, ast.Compare) and isinstance(c.left, ast.Name) and c.left.id == "matype" and isinstance(c.comparators[0], ast.Constant)
                    and isinstance(c.comparators[0].value, int)})
    if len(types) < 25:
        raise AnalysisError(f"ma(): only {len(types)} matype numbers recognised")
    cnt = 0
    # the selector's types, and every public indicator with the signature of an average (period, source_type, sequential) - whether it
    # IS an average is decided below: its newest element reproduces the constant
    subjects = [(f"ma(matype={k})", "jesse/indicators/ma.py", fn, {"matype": k}) for k in types]
    for pn, prel, pfn in IR.public_indicators(repo):
        names = [a.arg for a in pfn.args.args]
        if pn != "ma" and {"period", "source_type", "sequential"} <= set(names) and not any("matype" in a for a in names):
            subjects.append((pn, prel, pfn, {}))
    for label, rel_, fn_, over0 in subjects:
        k = label
        for period in (5, 14):
            n = 8 * period + 8          # long enough to tell a window function (a bounded look-back) from a recursive filter
            r = IR.run_indicator(repo, rel_, fn_, n, True, overrides=dict(over0, period=period))
            if r[0] == "raises":
                continue            # documented: some numbers are not valid for candles / raise
            if r[0] != "ok" or not isinstance(r[1], NA) or r[1].ndim != 1:
                if label.startswith("ma("):
                    rep.undecided_item(f"{label} period={period}: {r[0]} {str(r[1])[:60]}")
                continue
            # only finite-window LINEAR filters are held to this (a recursive filter has a start-up transient that the property
            # exempts, a high-pass / oscillator "matype" is no average, an adaptive one need not be defined on a constant series):
            # the newest element looks at a bounded window, and its expression is additive on two witness valuations
            last = r[1].data[-1]
            if not isinstance(last, D) or bin(last.m).count("1") > 3 * period + 3:
                rep.instance(rid, f"matype={k}|period={period}|not-a-window-function")
                continue
            try:
                va = lambda tag, i, col: 0.0 if col == 0 else (3.0 + (i * 7 % 5)) if col == 5 else 50.0 + (i * 13 % 11) + col
                vb = lambda tag, i, col: 0.0 if col == 0 else (3.0 + (i * 7 % 5)) if col == 5 else 20.0 + (i * 5 % 7) * 1.5 + 2 * col
                vab = lambda tag, i, col: va(tag, i, col) if col in (0, 5) else va(tag, i, col) + vb(tag, i, col)
                fa, fb, fab = eval_dag(last, va), eval_dag(last, vb), eval_dag(last, vab)
                if not all(isinstance(x, float) and x == x for x in (fa, fb, fab)) or abs(fab - fa - fb) > 1e-7 * max(1.0, abs(fab)):
                    rep.instance(rid, f"matype={k}|period={period}|not-linear")
                    continue
                vc = lambda tag, i, col: 0.0 if col == 0 else 7.0 if col == 5 else 100.0
                fc = eval_dag(last, vc)
                if not (isinstance(fc, float) and abs(fc - 100.0) <= 1e-6 * 100.0):
                    rep.instance(rid, f"matype={k}|period={period}|not-an-average")
                    continue
            except Undecided as e:
                if label.startswith("ma("):
                    rep.undecided_item(f"{label} period={period}: {e}")
                continue
            bad = None
            try:
                for c in (100.0, 37.5):
                    val = lambda tag, i, col, c=c: (0.0 if col == 0 else 7.0 if col == 5 else c)
                    for i, x in enumerate(r[1].data):
                        v = eval_dag(x, val) if isinstance(x, D) else x
                        if v is None or (isinstance(v, float) and v != v):
                            continue
                        if abs(v - c) > 1e-6 * c:
                            bad = (i, v, c)
                            break
                    if bad:
                        break
            except Undecided as e:
                if label.startswith("ma("):
                    rep.undecided_item(f"{label} period={period}: {e}")
                continue
            cnt += 1
            if bad:
                rep.violation(rid, f"{k}|constant-series", f"{label} with period={period}, sequential=True, on a constant series of {bad[2]} has the value {bad[1]!r} at element {bad[0]}: "
                                                                  f"neither the constant nor NaN (the average's weights do not sum to one there - e.g. a warm-up filled with zeros)")
            rep.instance(rid, f"{k}|period={period}")
    rep.floor(rid, 40)


# ------------------------------------------------------------------ ranges, orderings, homogeneity (the property's second sentence)
RANGES = [
    # (indicator, overrides, {field: (lo, hi)}): hi / lo None = unbounded on that side
    ("rsi", {}, {"value": (0, 100)}), ("stoch", {}, {"k": (0, 100), "d": (0, 100)}), ("stochf", {}, {"k": (0, 100), "d": (0, 100)}),
    ("srsi", {}, {"k": (0, 100), "d": (0, 100)}), ("willr", {}, {"value": (-100, 0)}), ("mfi", {}, {"value": (0, 100)}),
    ("cmo", {}, {"value": (-100, 100)}), ("aroon", {}, {"down": (0, 100), "up": (0, 100)}), ("aroonosc", {}, {"value": (-100, 100)}),
    ("ultosc", {}, {"value": (0, 100)}), ("adx", {}, {"value": (0, 100)}), ("di", {}, {"plus": (0, 100), "minus": (0, 100)}),
    ("atr", {}, {"value": (0, None)}), ("natr", {}, {"value": (0, None)}), ("trange", {}, {"value": (0, None)}),
    ("stddev", {}, {"value": (0, None)}), ("var", {}, {"value": (0, None)}), ("bollinger_bands_width", {}, {"value": (0, None)}),
    ("mean_ad", {}, {"value": (0, None)}), ("median_ad", {}, {"value": (0, None)}), ("ui", {}, {"value": (0, None)}), ("mass", {}, {"value": (0, None)}),
    ("dm", {}, {"plus": (0, None), "minus": (0, None)}),
    ("kdj", {}, {"k": (0, 100), "d": (0, 100)}), ("adxr", {}, {"value": (0, 100)}),
]
BANDS = [("bollinger_bands", {}), ("keltner", {}), ("donchian", {})]       # upperband >= middleband >= lowerband


def _range_valuations(n):
    """witness candles for refuting a range: the adversarial set of the other rules plus flat candles, a spike and a crash"""
    vals = list(IR.valuations(n))

    def tab(name, rows):
        vals.append((name, lambda tag, k, col, rows=rows: rows[k][col]))
    tab("flat candles, slowly rising", [(0.0, 100.0 + k, 100.0 + k, 100.0 + k, 100.0 + k, 1.0) for k in range(n)])
    tab("spike", [(0.0, 100.0, 100.0 if k != n - 3 else 900.0, 101.0 if k != n - 3 else 1000.0, 99.0, 5.0) for k in range(n)])
    tab("crash then flat", [(0.0, 500.0 if k < n // 2 else 5.0, 500.0 if k < n // 2 - 1 else 5.0, 500.0 if k <= n // 2 else 5.0, 5.0 if k >= n // 2 - 1 else 500.0, 0.0 if k % 3 else 2.0)
                            for k in range(n)])
    return vals


def check_ranges(repo, rep):
    from vlib.indic_range import Prover, Budget
    rid = "C15-R6"
    rep.rule(rid, "bounded oscillators stay inside their range, volatility measures are non-negative, bands are ordered and the Donchian channel "
                  "encloses the candle: every numeric element of the sequential series (default parameters, 40 candles) is decided by an interval "
                  "/ order analysis of its extracted expression that holds for EVERY valid candle valuation (prices > 0, volume >= 0, low <= "
                  "open, close <= high): sums on their flattened linear form, quotients bounded by their denominator, guarded values under "
                  "their guard, x <= max(.., x, ..).  An obligation that is not provable is evaluated on nine adversarial valuations (ties, flat "
                  "candles, spikes, no-trade candles): a value outside the range is a counterexample, otherwise it stays undecided")
    n = 40
    eps = 1e-7
    proved = refuted = open_ = 0
    vals = None

    def decide(name, f, what, items, prove, holds):
        """items: indices; prove(P, i) -> bool; holds(i, val) -> bool or None (not a number)"""
        nonlocal proved, refuted, open_, vals
        P = Prover()
        P.deadline = __import__("time").time() + 12.0
        unproved = []
        for i in items:
            try:
                ok = prove(P, i)
            except (Budget, ArithmeticError, RecursionError):
                ok = False          # the proof search gave up: the obligation goes to the witnesses
            if not ok:
                unproved.append(i)
        bad = None
        if unproved:
            vals = vals or _range_valuations(n)
            for vn, val in vals:
                for i in unproved:
                    try:
                        h = holds(i, val)
                    except Undecided:
                        h = None
                    if h is False:
                        bad = (vn, i)
                        break
                if bad:
                    break
        if bad:
            refuted += 1
            rep.violation(rid, f"{name}|{f}|{what}", f"{name}.{f}: element {bad[1]} breaks '{what}' on the valuation '{bad[0]}' (and the interval / order analysis cannot prove it)")
        elif unproved:
            open_ += 1
            rep.undecided_item(f"{name}.{f}: '{what}' not provable for {len(unproved)} of {len(items)} elements; no counterexample among the witness valuations")
        else:
            proved += 1
        rep.instance(rid, f"{name}|{f}|{what}", {"indicator": name, "field": f, "obligation": what, "elements": len(items),
                                                  "proved_for_all_valuations": len(items) - len(unproved), "counterexample": bad})

    for name, over, fields in RANGES:
        try:
            out = run_ind(repo, name, n=n, **over)
        except Undecided as e:
            rep.undecided_item(f"{name}: {e}")
            continue
        for f, (lo, hi) in fields.items():
            arr = out.get(f)
            if not isinstance(arr, NA) or arr.ndim != 1:
                rep.undecided_item(f"{name}.{f}: not a series")
                continue
            items = [i for i, x in enumerate(arr.data) if isinstance(x, D)]
            if not items:
                rep.undecided_item(f"{name}.{f}: no computed element on {n} candles")
                continue

            def prove(P, i, arr=arr, lo=lo, hi=hi):
                a, b = P.interval(arr.data[i])
                return (lo is None or a >= lo - eps) and (hi is None or b <= hi + eps)

            def holds(i, val, arr=arr, lo=lo, hi=hi):
                v = eval_dag(arr.data[i], val)
                if v is None or not isinstance(v, (int, float)) or v != v or abs(v) == float("inf"):
                    return None
                tol = 1e-7 * max(1.0, abs(v))
                return (lo is None or v >= lo - tol) and (hi is None or v <= hi + tol)
            decide(name, f, f"in [{lo if lo is not None else '-inf'}, {hi if hi is not None else 'inf'}]", items, prove, holds)
    for name, over in BANDS:
        try:
            out = run_ind(repo, name, n=n, **over)
        except Undecided as e:
            rep.undecided_item(f"{name}: {e}")
            continue
        up, mid, low = out.get("upperband"), out.get("middleband"), out.get("lowerband")
        if not all(isinstance(x, NA) and x.ndim == 1 and len(x.data) == n for x in (up, mid, low)):
            rep.undecided_item(f"{name}: bands are not three series of {n} entries")
            continue
        items = [i for i in range(n) if all(isinstance(x.data[i], D) for x in (up, mid, low))]
        pairs = [("lowerband <= middleband", low, mid), ("middleband <= upperband", mid, up)]
        if name == "donchian":
            cnd = IR.candles(n)
            hi_col = [cnd.data[i][3] if hasattr(cnd, "data") and isinstance(cnd.data[i], (list, tuple)) else None for i in range(n)]
            pairs += [("high <= upperband", "H", up), ("lowerband <= low", low, "L")]
        for what, a, b in pairs:
            def side(x, i):
                if isinstance(x, str):
                    from vlib.indic_vals import mk
                    return _input(i, 3 if x == "H" else 4)
                return x.data[i]

            def prove(P, i, a=a, b=b):
                return P.le(side(a, i), side(b, i))

            def holds(i, val, a=a, b=b):
                x, y = eval_dag(side(a, i), val), eval_dag(side(b, i), val)
                if any(v is None or not isinstance(v, (int, float)) or v != v for v in (x, y)):
                    return None
                return x <= y + 1e-7 * max(1.0, abs(x), abs(y))
            decide(name, "bands", what, items, prove, holds)
    rep.extra["ranges"] = {"obligations_proved_for_all_valuations": proved, "refuted": refuted, "not_provable_no_counterexample": open_}
    rep.floor(rid, 30)
    if proved < 30:
        raise AnalysisError(f"C15-R6: only {proved} range / order obligations proved (at least 30 on the reference tree): the prover or the interpreter lost ground")


def _input(i, col, tag="c"):
    """the raw candle input node (tag, candle index, column) as the dependence interpreter creates it"""
    from vlib.indic_vals import D as _D
    return _D(1 << i, hash(("in", tag, i, col)), "in", (tag, i, col))


OSCILLATOR_MATYPES = {21: "reflex", 22: "trendflex"}     # normalised by their own RMS: dimensionless by definition, no averages


def check_homogeneity(repo, rep):
    from vlib.indic_range import dimension, ZERO
    from fractions import Fraction
    rid = "C15-R7"
    rep.rule(rid, "price-homogeneous averages scale linearly with the price: dimensional analysis of the extracted expression of the newest "
                  "element of every moving average of the selector (and of every public indicator with the signature of an average that "
                  "reproduces a constant): degree 1 in the prices and 0 in the volume - sums / max / min / choices join equal degrees, "
                  "products add them, quotients subtract them, a comparison must compare like quantities (or with zero).  An expression that is "
                  "not provably homogeneous is evaluated on witness candles and on the same candles with every price multiplied by 3: a "
                  "result that is not multiplied by 3 is a counterexample")
    fn = repo.func("jesse/indicators/ma.py", "ma")
    types = sorted({c.comparators[0].value for n_ in ast.walk(fn) if isinstance(n_, ast.If) for c in ([n_.test] if isinstance(n_.test, ast.Compare) else
                                                                                                         (n_.test.values if isinstance(n_.test, ast.BoolOp) else []))
                    if isinstance(c, ast.Compare) and isinstance(c.left, ast.Name) and c.left.id == "matype" and isinstance(c.comparators[0], ast.Constant)
                    and isinstance(c.comparators[0].value, int)})
    subjects = [(f"ma(matype={k})", "jesse/indicators/ma.py", fn, {"matype": k}) for k in types]
    for pn, prel, pfn in IR.public_indicators(repo):
        names = [a.arg for a in pfn.args.args]
        if pn != "ma" and {"period", "source_type", "sequential"} <= set(names) and not any("matype" in a for a in names):
            subjects.append((pn, prel, pfn, {}))
    n = 60
    proved = 0
    vals = IR.valuations(n)[:3]
    for label, rel_, fn_, over0 in subjects:
        r = IR.run_indicator(repo, rel_, fn_, n, True, overrides=dict(over0, period=7))
        if r[0] != "ok" or not isinstance(r[1], NA) or r[1].ndim != 1 or not isinstance(r[1].data[-1], D):
            continue
        last = r[1].data[-1]
        # is it an average at all?  (the newest element reproduces a constant price) - oscillators / high-pass types are not held to this
        try:
            fcs = [(c, eval_dag(last, lambda tag, i, col, c=c: 0.0 if col == 0 else 7.0 if col == 5 else c)) for c in (100.0, 37.5)]
        except Undecided:
            continue
        selector = label.startswith("ma(")
        if selector and over0.get("matype") in OSCILLATOR_MATYPES:
            rep.instance(rid, f"{label}|oscillator")
            continue
        if not selector and not all(isinstance(fc, float) and abs(fc - c) <= 1e-6 * c for c, fc in fcs):
            # (a public indicator with the signature of an average is held to this only if it IS one; every type of the selector is)
            rep.instance(rid, f"{label}|not-an-average")
            continue
        dim = dimension(last)
        ok = dim == (Fraction(1), Fraction(0))
        bad = None
        if not ok:
            for vn, val in vals:
                try:
                    a = eval_dag(last, val)
                    b = eval_dag(last, lambda tag, i, col, val=val: val(tag, i, col) * (3.0 if col in (1, 2, 3, 4) else 1.0))
                except Undecided:
                    continue
                if all(isinstance(x, float) and x == x for x in (a, b)) and abs(b - 3.0 * a) > 1e-7 * max(1.0, abs(b)):
                    bad = (vn, a, b)
                    break
            if bad:
                rep.violation(rid, f"{label}|homogeneity", f"{label} (period 7): the newest value is {bad[1]!r} on the valuation '{bad[0]}' and {bad[2]!r} when every price is "
                                                            f"multiplied by 3 (expected {3 * bad[1]!r}): the average does not scale with the price")
            else:
                rep.undecided_item(f"{label}: not provably homogeneous (dimension {dim}); scales correctly on the witness candles")
        else:
            proved += 1
        rep.instance(rid, f"{label}|degree", {"subject": label, "degree_price_volume": None if dim is None else str(dim), "proved": ok})
    rep.extra["homogeneity_proved"] = proved
    rep.floor(rid, 30)
    if proved < 20:
        raise AnalysisError(f"C15-R7: only {proved} averages proved homogeneous (at least 20 on the reference tree)")


def run(repo: Repo, rep, tier: str):
    rep.assume("symbolic identities are for input length 12 (ma selector: 70) and periods 3/4/5; exact rational arithmetic; comparisons, max/min, abs, sqrt are canonical opaque atoms")
    from vlib.indic_vals import time_limit

    def limited(fn, seconds=150):
        # a rule group that blows up on a reformulated indicator ends as an analysis error of that group (the others still decide)
        def run_(repo_, rep_):
            from vlib.indic_vals import TimeBudget
            try:
                with time_limit(seconds, fn.__name__):
                    return fn(repo_, rep_)
            except TimeBudget as e:
                raise AnalysisError(str(e))
        run_.__name__ = fn.__name__
        return run_
    rep.guarded(limited(check_ma_selector), repo, rep)
    rep.guarded(limited(check_witness_definitions), repo, rep)
    rep.guarded(limited(check_nan_poisoning), repo, rep)
    rep.guarded(limited(check_constant_reproduced), repo, rep)
    rep.guarded(limited(check_windowed, 120), repo, rep)
    rep.guarded(limited(check_recurrences), repo, rep)
    rep.guarded(limited(check_ranges), repo, rep)
    rep.guarded(limited(check_homogeneity), repo, rep)
    from props.c14 import check_purity
    rep.guarded(check_purity, repo, rep, "C15-R8")
    rep.undecided_item("value agreement of recursive smoothers after seed decay (the recurrence step is decided)")
    rep.undecided_item("indicators outside the reference table (slow stochastic smoothing, adx/di/dm, trima, kama, ...)")


CLAIM = {
    "engine": "indicators+normal-forms",
    "technique": "expression DAGs of indicator outputs (from the dependence interpreter) converted to exact rational normal forms and compared with independently written textbook definitions; structural-hash comparison for the ma() selector; interval abstract interpretation + order prover + dimensional analysis of the same DAGs for ranges, orderings and homogeneity",
    "text": "Static. The expression DAG of every output element is extracted by interpreting /repo's indicator source on symbolic candles "
            "and converted to an exact rational function (comparisons / max / min / abs / sqrt as canonical opaque atoms). Trailing-window "
            "indicators (sma, wma, var, stddev, bollinger bands, donchian, willr, mom, roc, mfi, obv step, typ/med/avg/wcl price, trange, "
            "midpoint, midprice, cci, stochf %K/%D) must equal their textbook definitions as symbolic identities; keltner must be the repository's ema +- multiplier * atr; dema / tema must satisfy their seed-independent filter recurrences and macd signal/hist their defining relations; ema / smma / wilders / atr must satisfy their "
            "recurrence step and rsi Wilder's definition; ma() must return for each of its ~30 matypes exactly the series the selected "
            "moving average returns, also as a single value on an input longer than the warm-up window. Wilder's directional system (dm, di) "
            "is compared with its definition by evaluating the extracted expressions on six valuations (values inside [0, 100]); choosing a "
            "recursive matype must not turn a series into NaN. Identities hold for all input values at the analysed length/period. Ranges, non-negativity, band order and channel "
            "enclosure (R6): interval / order analysis of the extracted expressions, universal over valid candle valuations, with witness refutation of what is not provable; "
            "price-homogeneity of every average (R7): dimensional analysis of the extracted expression. Not decided: seed-decay agreement, definitions of indicators outside "
            "the table, range obligations that are neither provable nor refuted. Window locality: element i of a trailing-window indicator depends only on the candles its definition mentions (R2); effect analysis (R8). Every symbolic rule group runs under a wall-clock budget.",
    "note": "Trusted: numpy model of the interpreter; reference definitions in props/c15.py; fixed small length and periods.",
}
