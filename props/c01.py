"""C01 - backtest decisions never depend on future candles (no look-ahead)."""
from __future__ import annotations

import ast
from typing import List, Optional

from vlib.loader import Repo, AnalysisError, norm
from vlib.idxflow import Flow, implied, is_data
from vlib import simloops as SL

BT = SL.BT
STATE = "jesse/store/state_candles.py"


def flows(repo):
    """the index-bound / provenance flow of both simulators (engine E8), computed once per run"""
    out = {}
    for sim in ("_step_simulator", "_skip_simulator"):
        fl = Flow(repo, BT)
        fl.run_simulator(sim)
        out[sim] = fl
    return out


def check_bounds(repo, rep, fl):
    rid = "C01-R1"
    rep.rule(rid, "every read of an input 1m array inside a simulator's time loop - in the simulator itself or in any module-local "
                  "function the input is handed to, however deep - stays inside [0, B): B = loop variable + stride of the time loop "
                  "(i + 1 in the normal simulator, i + chunk step in the fast one; candle i is the one being processed).  Index "
                  "expressions are followed as affine forms through assignments, aliases, parameters and recursive calls; loop "
                  "ranges, guards (i != 0, E % count == 0 with count from a positive table, min()/max()) give the facts; the bound is "
                  "discharged by Fourier-Motzkin elimination.  A negative offset (i - k) must sit under a guard implying i >= k: "
                  "otherwise it wraps around to the END of the series (future candles)")
    sites = {}
    for sim, f in fl.items():
        for r in f.reads:
            key = r.site
            where = " > ".join(r.chain)
            if r.lo is None or r.hi is None:
                rep.violation(rid, key, f"{r.fn}: read `{norm(r.node)}` of the input candles has no affine bound (unbounded slice or non-affine index), reached through {where}")
                continue
            up = implied(r.bound - r.hi, r.facts)
            low = implied(r.lo, r.facts)
            if (not up or not low) and r.opaque:
                raise AnalysisError(f"{r.fn}: read `{norm(r.node)}` ({where}) uses {sorted(r.opaque)}, whose value the analysis does not follow: index range [{r.lo!r}, {r.hi!r}) undecided")
            if not up:
                rep.violation(rid, key, f"{r.fn}: read `{norm(r.node)}` reaches candle index {r.hi!r} - 1, beyond the {r.bound!r} candles known at this step of {sim} (look-ahead; reached through {where})")
            if not low:
                rep.violation(rid, key, f"{r.fn}: read `{norm(r.node)}` can use the negative index {r.lo!r} (no guard implies it is >= 0; reached through {where}): at the first step "
                                        f"it wraps around to the END of the series (future candles)")
            sites.setdefault(key, []).append(where)
            rep.instance(rid, key + "|" + where, {"site": key, "through": where, "index_range": f"[{r.lo!r}, {r.hi!r})", "bound": repr(r.bound)})
    if len(sites) < 6:
        raise AnalysisError(f"C01-R1: only {len(sites)} read sites of the input arrays found (expected >= 6)")
    rep.floor(rid, 6)


def check_escape(repo, rep, fl):
    rid = "C01-R2"
    rep.rule(rid, "inside the time loops the whole input (the candles dict, one of its entries or a whole 1m array) is never handed to "
                  "anything that could keep or inspect it: it is only subscripted (R1), iterated, measured with len(), or passed to "
                  "module-local functions, which are analysed in turn; it is never stored into an attribute / container")
    for sim, f in fl.items():
        for fn, node, what, callee in f.escapes:
            rep.violation(rid, f"{fn}|{callee or 'store'}", f"{fn}: the whole input is {what} inside the time loop of {sim} (`{norm(node)[:90]}`)")
        rep.instance(rid, f"{sim}|scanned", {"functions": sorted(f.functions)})
    rep.floor(rid, 2)


def check_store_writers(repo, rep, fl):
    rid = "C01-R4"
    rep.rule(rid, "what the simulators (and every function they call) put into the candle store during the time loop derives only "
                  "from bounded reads of the input (R1) or from what the store itself hands back: the value written is followed "
                  "through assignments, calls and helper functions")
    n = 0
    for sim, f in fl.items():
        for fn, node, val, in_loop in f.stores:
            if not in_loop:
                continue
            n += 1
            if not is_data(val):
                rep.violation(rid, f"{fn}|{norm(node)[:50]}", f"{fn}: the candle stored by `{norm(node)[:80]}` does not derive from a bounded read of the input or from the store (untracked source)")
            rep.instance(rid, f"{sim}|{fn}|{norm(node.args[0]) if node.args else ''}")
    if n < 6:
        raise AnalysisError(f"C01-R4: only {n} store writes found")
    rep.floor(rid, 6)


def _roots(fn, expr, seen=None) -> set:
    """base names an expression is built from, local variables resolved through their assignments (flow-insensitive)"""
    seen = set() if seen is None else seen
    out = set()
    assigns = {}
    for n in ast.walk(fn):
        if isinstance(n, ast.Assign):
            for t in n.targets:
                for x in (t.elts if isinstance(t, (ast.Tuple, ast.List)) else [t]):
                    if isinstance(x, ast.Name):
                        assigns.setdefault(x.id, []).append(n.value)
        elif isinstance(n, ast.AugAssign) and isinstance(n.target, ast.Name):
            assigns.setdefault(n.target.id, []).append(n.value)
        elif isinstance(n, ast.For) and isinstance(n.target, ast.Name):
            assigns.setdefault(n.target.id, []).append(n.iter)
    params = {a.arg for a in fn.args.args}
    for n in ast.walk(expr):
        if isinstance(n, ast.Name) and isinstance(n.ctx, ast.Load):
            if n.id in assigns and n.id not in params:
                if n.id not in seen:
                    seen.add(n.id)
                    for v in assigns[n.id]:
                        out |= _roots(fn, v, seen)
            else:
                out.add(n.id)
    return out


def check_forming(repo, rep):
    rid = "C01-R3"
    rep.rule(rid, "forming higher-timeframe candles are generated from already STORED 1m candles only: in CandlesState.get_candles / "
                  "get_current_candle whatever is handed to generate_candle_from_one_minutes is built (through any local variables) from "
                  "`self` - the store - and the method's scalar parameters alone; the partial candle published at a fill is decided by "
                  "R4 (its source is what the store hands back); the exhaustive matching-loop runs of C08 show that only the earlier "
                  "part of a split candle is published")
    n = 0
    for meth in ("get_candles", "get_current_candle"):
        fn = repo.func(STATE, f"CandlesState.{meth}")
        params = {a.arg for a in fn.args.args}
        for c in ast.walk(fn):
            if isinstance(c, ast.Call) and SL.last(SL.dotted(c.func)) == "generate_candle_from_one_minutes":
                n += 1
                a = c.args[1] if len(c.args) > 1 else None
                roots = _roots(fn, a) if a is not None else {"<missing>"}
                alien = sorted(r for r in roots if r not in params and r not in ("self", "np", "len", "int", "min", "max", "jh", "range", "abs"))
                if alien:
                    rep.violation(rid, f"{meth}|source", f"CandlesState.{meth}: the forming candle is generated from `{norm(a) if a is not None else None}`, which is built from {alien} - "
                                                         f"not only from the candle store (self) and the method's parameters")
                rep.instance(rid, f"{meth}|{norm(a) if a is not None else ''}", {"roots": sorted(roots)})
    if n < 2:
        raise AnalysisError("C01-R3: forming-candle generation sites not found")
    rep.floor(rid, 2)


def check_order_of_phases(repo, rep):
    from props import sessions as S
    rep.rule("C01-R5", "both simulator functions interpreted whole on mini sessions (props/sessions.py; matcher, strategies, order store "
                       "recorded): in every step no strategy executes - and nothing of the end-of-minute protocol happens - before the "
                       "step's candles of every symbol have been stored and matched")
    S.check_protocol(repo, rep, "C01-R5", what="order")
    rep.rule("C01-R5c", "same sessions: every minute of every symbol is fed exactly once, minute-major (no symbol runs ahead of another by more than "
                        "the minute being processed), and the normal simulator has advanced the clock to the end of a minute before it stores "
                        "and matches it (a hook stamped t never sees a candle that ends after t)")
    S.check_cover(repo, rep, "C01-R5c", clock=True)
    rep.rule("C01-R5b", "same sessions: a higher-timeframe candle is only generated from 1m candles of minutes that have already been matched "
                        "(never from later ones), each completed window once, before the strategies of that step run")
    S.check_generation(repo, rep, "C01-R5b")


def check_clock_before_hooks(repo, rep):
    """a hook that runs with a stale clock is an observation stamped t of candles that end after t: in the fast matcher the clock
    must be advanced to the end of the fill minute before the order is executed (the normal simulator advances it before it
    feeds the minute at all, decided by the sessions of R5)"""
    from props.c12 import check_fast_time
    check_fast_time(repo, rep, rid="C01-R6")


def run(repo: Repo, rep, tier: str):
    rep.assume("the session length (stop of the time loop's range) is not negative, so inside the loop body the stride is >= 1; values of the module-level timeframe table are >= 1 (checked on its literal); E % count == 0 with E >= 1 and count >= 1 implies E >= count")
    fl = rep.guarded(flows, repo)
    if fl is not None:
        rep.guarded(check_bounds, repo, rep, fl)
        rep.guarded(check_escape, repo, rep, fl)
        rep.guarded(check_store_writers, repo, rep, fl)
    rep.guarded(check_forming, repo, rep)
    rep.guarded(check_clock_before_hooks, repo, rep)
    rep.guarded(check_order_of_phases, repo, rep)
    rep.undecided_item("that everything a strategy observes is a function of the stored prefix (a two-run hyperproperty); the rules decide that the simulators never read or publish input beyond the current step")
    rep.undecided_item("user strategy code and indicator look-ahead (indicators: see C13)")


CLAIM = {
    "engine": "idxflow+traces",
    "technique": "interprocedural abstract interpretation of the simulators over an affine-index / provenance domain (input dict, entry, 1m array, data read from it, affine integers) with Fourier-Motzkin discharge of index bounds; escape analysis of the input; provenance of store writes; phase-order trace rules",
    "text": "Static. Both simulators are interpreted abstractly from their time loop (the range loop that uses the input) through every "
            "module-local function the input or data read from it is handed to, recursion included: every subscript of an input 1m "
            "array must stay below the number of candles known at that step (loop variable + stride) and must not be negative (a "
            "negative index wraps to the end of the series = future candles), proven from loop ranges, guards, min()/max() and the "
            "positive timeframe table by Fourier-Motzkin elimination. The whole input never escapes into a call that is not analysed "
            "or into a store inside the loop; what is written to the candle store derives only from those bounded reads or from the "
            "store itself; forming candles are generated from stored 1m candles only; matching and candle generation precede strategy "
            "execution in every step. Nothing is keyed on variable or helper names. Not decided: the two-run hyperproperty itself. The chunk length is a tracked symbol (>= 1, not known to be 1) of the index analysis.",
    "note": "Trusted: the stride of the time loop is positive inside its body; module-level table values are read from the literal. An index that involves a value the analysis does not follow is reported as undecided (exit 2), not as a violation.",
}
