"""C01 - backtest decisions never depend on future candles (no look-ahead)."""
from __future__ import annotations

import ast
from typing import List, Optional

from vlib.loader import Repo, AnalysisError, norm
from vlib.affine import to_poly, provably_nonneg
from vlib.poly import Poly
from vlib import simloops as SL

BT = SL.BT
STATE = "jesse/store/state_candles.py"


def is_input_array(node) -> bool:
    return norm(node).replace('"', "'").endswith("['candles']")


def aliases(fn) -> set:
    """local names bound to an input 1m array (e.g. first_candles_set = candles[key]['candles'])"""
    out = set()
    for n in ast.walk(fn):
        if isinstance(n, ast.Assign) and len(n.targets) == 1 and isinstance(n.targets[0], ast.Name) and is_input_array(n.value):
            out.add(n.targets[0].id)
    return out


def enclosing_tests(fn, target) -> List[ast.AST]:
    """tests of If statements (body side) and IfExp (body side) enclosing `target`"""
    out = []

    def rec(node, stack):
        if node is target:
            out.extend(stack)
            return True
        if isinstance(node, ast.If):
            if any(rec(b, stack + [("if", node.test)]) for b in node.body):
                return True
            if any(rec(b, stack + [("else", node.test)]) for b in node.orelse):
                return True
            return rec(node.test, stack)
        if isinstance(node, ast.IfExp):
            return rec(node.body, stack + [("if", node.test)]) or rec(node.orelse, stack + [("else", node.test)]) or rec(node.test, stack)
        for ch in ast.iter_child_nodes(node):
            if rec(ch, stack):
                return True
        return False
    rec(fn, [])
    return out


def guard_lower_bound(tests, var: str) -> int:
    """largest k such that the enclosing guards imply var >= k (var starts at 0)"""
    lb = 0
    for side, t in tests:
        txt = norm(t)
        parts = [norm(v) for v in t.values] if isinstance(t, ast.BoolOp) and isinstance(t.op, ast.And) else [txt]
        if side != "if":
            continue
        for p in parts:
            if p in (f"{var} != 0", f"{var} > 0", f"0 < {var}", f"0 != {var}", var):
                lb = max(lb, 1)
            for k in range(1, 8):
                if p in (f"{var} >= {k}", f"{var} > {k - 1}", f"{k} <= {var}"):
                    lb = max(lb, k)
                if p in (f"{var} - {k} >= 0", f"{var} - {k} > -1"):
                    lb = max(lb, k)
    return lb


def check_bounds(repo, rep):
    rid = "C01-R1"
    rep.rule(rid, "every read of the input 1m arrays inside the time loops stays inside [0, B): B = i + 1 in the normal simulator (candle i is "
                  "the one being processed), B = i + candles_step in the fast simulator; a negative offset (i - k) is only read under a guard "
                  "that implies i >= k (no wrap-around to the end of the series)")
    sites = 0
    for fname, bound_src, var in (("_step_simulator", "i + 1", "i"), ("_simulate_new_candles", "i + candles_step", "i")):
        fn = repo.func(BT, fname)
        B = to_poly(ast.parse(bound_src, mode="eval").body)
        al = aliases(fn)
        loops = [n for n in ast.walk(fn) if isinstance(n, ast.For)]
        if fname == "_step_simulator":
            time_loops = [l for l in loops if norm(l.iter).startswith("range(")]
            if not time_loops:
                raise AnalysisError("_step_simulator: time loop not found")
            scope = time_loops[0]
        else:
            scope = fn
        for n in ast.walk(scope):
            if not isinstance(n, ast.Subscript):
                continue
            base = n.value
            if not (is_input_array(base) or (isinstance(base, ast.Name) and base.id in al)):
                continue
            sites += 1
            key = f"{fname}|{norm(n)}"
            tests = enclosing_tests(fn, n)
            lb_i = guard_lower_bound(tests, var)
            if isinstance(n.slice, ast.Slice):
                lo = to_poly(n.slice.lower) if n.slice.lower is not None else Poly.const(0)
                hi = to_poly(n.slice.upper) if n.slice.upper is not None else None
            else:
                lo = to_poly(n.slice)
                hi = lo + Poly.const(1) if lo is not None else None
            if lo is None or hi is None:
                rep.violation(rid, key, f"{fname}: read `{norm(n)}` of the input candles has no affine bound (unbounded or non-affine index)")
                continue
            # upper bound:  B - hi >= 0  with count >= 1, candles_step >= 1, i >= 0
            # (a guard `(i + 1) % count == 0` / `(i + candles_step) % count == 0` implies count <= that expression)
            slack = B - hi
            ok_hi = provably_nonneg(slack, nonneg_atoms={var}, pos_atoms={"count", "candles_step", "num"})
            if not ok_hi:
                rep.violation(rid, key, f"{fname}: read `{norm(n)}` reaches candle index {hi!r} - 1, beyond the {bound_src} candles known at this step (look-ahead)")
            # lower bound: lo >= 0 given i >= lb_i; window slices [E - count : E] are protected by the guard E % count == 0 (E >= count)
            lo_shift = lo
            need = None
            const = lo.t.get((), 0)
            coef_i = lo.t.get(((var, 1),), 0)
            others = [m for m in lo.t if m not in ((), ((var, 1),))]
            if not others and coef_i == 1 and const < 0:
                need = int(-const)
                if lb_i < need:
                    rep.violation(rid, key, f"{fname}: read `{norm(n)}` uses index {lo!r} without a guard implying {var} >= {need}: at {var} = 0 it wraps around to the END of the series (future candles)")
            elif others:
                # window form E - count: accepted when guarded by E % count == 0
                mod_guards = [t for side, t in tests if side == "if" and isinstance(t, ast.Compare) and isinstance(t.left, ast.BinOp) and isinstance(t.left.op, ast.Mod)]
                okw = False
                for g in mod_guards:
                    E, cnt = to_poly(g.left.left), to_poly(g.left.right)
                    if E is not None and cnt is not None and lo == E - cnt:
                        okw = True
                if not okw:
                    rep.violation(rid, key, f"{fname}: read `{norm(n)}` has lower bound {lo!r} that is not protected by a window guard (may be negative: wrap-around)")
            rep.instance(rid, key, {"site": key, "index_range": f"[{lo!r}, {hi!r})", "bound": bound_src, "guards": [norm(t) for s, t in tests]})
    if sites < 6:
        raise AnalysisError(f"C01-R1: only {sites} reads of the input arrays found (expected >= 6)")
    rep.floor(rid, 6)


def check_escape(repo, rep):
    rid = "C01-R2"
    rep.rule(rid, "inside the time loops the whole input (the candles dict or a whole 1m array) is never handed to anything that could "
                  "store or inspect it: it only appears subscripted (R1), as the iterable of the symbol loop, or as the argument of "
                  "_simulate_new_candles, which is itself checked by R1")
    allowed_callees = {"_simulate_new_candles", "len"}
    n_sites = 0
    for fname in ("_step_simulator", "_skip_simulator", "_simulate_new_candles"):
        fn = repo.func(BT, fname)
        al = aliases(fn)
        loops = [l for l in ast.walk(fn) if isinstance(l, ast.For) and (norm(l.iter).startswith("range(") or fname == "_simulate_new_candles")]
        scope_nodes = loops if fname != "_simulate_new_candles" else [fn]
        for scope in scope_nodes:
            for c in ast.walk(scope):
                if isinstance(c, ast.Call):
                    callee = SL.last(SL.dotted(c.func))
                    for a in list(c.args) + [k.value for k in c.keywords]:
                        whole = (isinstance(a, ast.Name) and (a.id == "candles" or a.id in al)) or is_input_array(a)
                        if whole:
                            n_sites += 1
                            if callee not in allowed_callees:
                                rep.violation(rid, f"{fname}|{callee}", f"{fname}: the whole input `{norm(a)}` is passed to {norm(c.func)}() inside the time loop")
                            rep.instance(rid, f"{fname}|{callee}|{norm(a)}")
                if isinstance(c, (ast.Assign, ast.AugAssign)):
                    v = c.value
                    whole = (isinstance(v, ast.Name) and (v.id == "candles" or v.id in al)) or is_input_array(v)
                    tgt = c.targets[0] if isinstance(c, ast.Assign) else c.target
                    if whole and isinstance(tgt, (ast.Attribute, ast.Subscript)):
                        rep.violation(rid, f"{fname}|store", f"{fname}: the whole input is stored into `{norm(tgt)}` inside the time loop")
        rep.instance(rid, f"{fname}|scanned")
    rep.floor(rid, 3)


def check_store_writers(repo, rep):
    rid = "C01-R4"
    rep.rule(rid, "what the simulators put into the candle store during the loop is derived only from bounded reads (R1): the current 1m row, "
                  "its gap-normalised version, candles generated from bounded slices, or the parts of a split candle")
    ok_calls = {"_get_fixed_jumped_candle", "generate_candle_from_one_minutes", "split_candle", "copy"}
    n = 0
    for fname in ("_step_simulator", "_simulate_new_candles", "_simulate_price_change_effect", "_simulate_price_change_effect_multiple_candles", "_update_all_routes_a_partial_candle"):
        fn = repo.func(BT, fname)
        params = {a.arg for a in fn.args.args}
        assigns = {}
        for node in ast.walk(fn):
            if isinstance(node, ast.Assign):
                for t in node.targets:
                    for sub in (t.elts if isinstance(t, ast.Tuple) else [t]):
                        if isinstance(sub, ast.Name):
                            assigns.setdefault(sub.id, []).append(node.value)
        for c in ast.walk(fn):
            if isinstance(c, ast.Call) and SL.last(SL.dotted(c.func)) in ("add_candle", "add_multiple_1m_candles", "batch_add_candle") and c.args:
                n += 1
                a = c.args[0]
                srcs = []
                if isinstance(a, ast.Name):
                    srcs = assigns.get(a.id, []) or ([None] if a.id in params else [])
                else:
                    srcs = [a]
                bad = []
                for v in srcs:
                    if v is None:
                        continue         # a parameter: checked at the caller
                    base = v
                    if isinstance(base, ast.Call):
                        nm = SL.last(SL.dotted(base.func))
                        if nm in ok_calls or nm == "array":
                            continue
                        bad.append(norm(v)[:60])
                        continue
                    while isinstance(base, (ast.Subscript, ast.Attribute)):
                        base = base.value
                    if isinstance(base, ast.Name) and (base.id in params or base.id in assigns or base.id == "candles"):
                        continue
                    bad.append(norm(v)[:60])
                if bad or not srcs:
                    rep.violation(rid, f"{fname}|{norm(c)[:50]}", f"{fname}: candle stored by `{norm(c)[:80]}` has an untracked source {bad}")
                rep.instance(rid, f"{fname}|{norm(a)}")
    if n < 6:
        raise AnalysisError(f"C01-R4: only {n} store writes found")
    rep.floor(rid, 6)


def check_forming(repo, rep):
    rid = "C01-R3"
    rep.rule(rid, "forming higher-timeframe candles are generated from already STORED 1m candles only (CandlesState.get_candles / "
                  "get_current_candle slice self.storage up to the stored count; the partial candle at a fill uses the stored tail); the "
                  "exhaustive matching-loop runs of C08 show that only the earlier part of a split candle is published")
    n = 0
    for meth in ("get_candles", "get_current_candle"):
        fn = repo.func(STATE, f"CandlesState.{meth}")
        for c in ast.walk(fn):
            if isinstance(c, ast.Call) and SL.last(SL.dotted(c.func)) == "generate_candle_from_one_minutes":
                n += 1
                a = c.args[1] if len(c.args) > 1 else None
                ok = isinstance(a, ast.Subscript) and norm(a.value).startswith("self.storage[") and isinstance(a.slice, ast.Slice) and \
                    a.slice.upper is not None and norm(a.slice.upper) == "short_count"
                if not ok:
                    rep.violation(rid, f"{meth}|source", f"CandlesState.{meth}: forming candle is generated from `{norm(a) if a is not None else None}`, not from the stored 1m candles up to the stored count")
                rep.instance(rid, f"{meth}|{norm(a) if a is not None else ''}")
        cnt = [n2 for n2 in ast.walk(fn) if isinstance(n2, ast.Assign) and norm(n2.targets[0]) == "short_count"]
        if cnt and "len(self.get_storage(exchange, symbol, '1m'))" not in norm(cnt[0].value):
            rep.violation(rid, f"{meth}|short_count", f"CandlesState.{meth}: short_count is `{norm(cnt[0].value)}`, not the number of stored 1m candles")
    fn = repo.func(BT, "_update_all_routes_a_partial_candle")
    src = [n2 for n2 in ast.walk(fn) if isinstance(n2, ast.Assign) and norm(n2.targets[0]) == "candles_1m"]
    if not src or "store.candles.get_candles(exchange, symbol, '1m')" not in norm(src[0].value):
        rep.violation(rid, "partial|source", "the partial candle published at a fill is not generated from the stored 1m candles")
    rep.instance(rid, "partial|source")
    if n < 2:
        raise AnalysisError("C01-R3: forming-candle generation sites not found")
    rep.floor(rid, 3)


def check_order_of_phases(repo, rep):
    rid = "C01-R5"
    rep.rule(rid, "per step: the new candle(s) are stored and matched before any strategy executes, and the clock is advanced before "
                  "them (trace rule, both simulators; shared view with C02-R1)")
    for sim, eff in (("_step_simulator", "_simulate_price_change_effect"), ("_skip_simulator", "_simulate_price_change_effect_multiple_candles")):
        view = SL.sim_view(repo, sim, {eff, "_execute", "generate_candle_from_one_minutes"})
        for evs in view["iters"]:
            names = [e[1] for e in evs if e[0] == "call"]
            if "_execute" in names:
                first_exec = names.index("_execute")
                later = [x for x in names[first_exec:] if x in (eff, "generate_candle_from_one_minutes")]
                if later:
                    rep.violation(rid, f"{sim}|phases", f"{sim}: candles are fed / generated after a strategy already executed in the same step: {names}")
            rep.instance(rid, f"{sim}|{' '.join(names)}")
    rep.floor(rid, 4)


def run(repo: Repo, rep, tier: str):
    rep.assume("count, candles_step, num >= 1; loop variables start at 0; the `E % count == 0` guard implies E >= count for the window slice")
    rep.guarded(check_bounds, repo, rep)
    rep.guarded(check_escape, repo, rep)
    rep.guarded(check_forming, repo, rep)
    rep.guarded(check_store_writers, repo, rep)
    rep.guarded(check_order_of_phases, repo, rep)
    rep.undecided_item("that everything a strategy observes is a function of the stored prefix (a two-run hyperproperty); the rules decide that the simulators never read or publish input beyond the current step")
    rep.undecided_item("user strategy code and indicator look-ahead (indicators: see C13)")


CLAIM = {
    "engine": "affine+traces",
    "technique": "affine index-bound analysis of every read of the input candle arrays inside the time loops (upper bound = current step, guarded lower bound = no wrap-around), escape analysis of the input, provenance of store writes, phase-order trace rules",
    "text": "Static. Every subscript of the input 1m arrays inside the time loop of the normal simulator and inside _simulate_new_candles of "
            "the fast simulator is bounded symbolically: its largest index must be below i+1 (normal) / i+candles_step (fast) and a negative "
            "offset such as i-1 must sit under a guard implying i >= 1 (otherwise it wraps to the end of the series = future candles); "
            "window slices must be [E-count : E] under E % count == 0. The whole input never escapes into a call or a store inside the "
            "loop; what is written to the candle store derives only from those bounded reads; forming candles are generated from stored "
            "1m candles only; matching and candle generation precede strategy execution in every step. Not decided: the two-run "
            "hyperproperty itself.",
    "note": "Trusted: affine reasoning with the stated positivity assumptions; guards recognised: i != 0, i > 0, i >= k, E % count == 0.",
}
