import numpy as np, warnings; warnings.filterwarnings('ignore')
import jesse.indicators as ta
from jesse.factories import candles_from_close_prices
rng=np.random.default_rng(3); n=400
c=candles_from_close_prices(list(100+np.cumsum(rng.normal(0,1,n)))); c[:,5]=rng.random(n)*100+1
single=ta.vwmacd(c)            # long input: non-sequential
seq=ta.vwmacd(c[-240:], sequential=True)
for f in single._fields:
    a=getattr(single,f); b=getattr(seq,f)[-1]
    print(f, a, b, 'rel diff', abs(a-b)/max(1e-12,abs(b)))
import jesse.indicators.squeeze_momentum as sm
r=ta.squeeze_momentum(c[:100], sequential=True)
print('squeeze_momentum lengths', [len(x) for x in r], 'for 100 candles')
