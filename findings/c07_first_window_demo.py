import numpy as np
from jesse.research import backtest
from jesse.strategies import Strategy
from jesse.factories import candles_from_close_prices
seen = []
class S(Strategy):
    def should_long(self):
        c = self.get_candles('Sandbox', 'BTC-USDT', '3m')
        seen.append((self.index, len(c)))
        return False
    def go_long(self): pass
    def should_cancel_entry(self): return False
c = candles_from_close_prices(list(range(100, 112)))
cfg = {'starting_balance': 10000, 'fee': 0, 'type': 'futures', 'futures_leverage': 2, 'futures_leverage_mode': 'cross', 'exchange': 'Sandbox', 'warm_up_candles': 0}
routes = [{'exchange': 'Sandbox', 'strategy': S, 'symbol': 'BTC-USDT', 'timeframe': '1m'}]
data_routes = [{'exchange': 'Sandbox', 'symbol': 'BTC-USDT', 'timeframe': '3m'}]
try:
    backtest(cfg, routes, data_routes, {'Sandbox-BTC-USDT': {'exchange': 'Sandbox', 'symbol': 'BTC-USDT', 'candles': c}})
    print('ok', seen)
except Exception as e:
    print('RAISED', type(e).__name__, e, 'seen', seen)
