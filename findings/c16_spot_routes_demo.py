import numpy as np, sys
from jesse.research import backtest
from jesse.strategies import Strategy
from jesse.store import store
from jesse.factories import candles_from_close_prices

CAP = []
class Idle(Strategy):
    def terminate(self):
        CAP[:] = list(store.app.daily_balance)
    def should_long(self): return False
    def go_long(self): pass
    def should_cancel_entry(self): return False

class Resting(Strategy):
    def terminate(self):
        CAP[:] = list(store.app.daily_balance)
    def should_long(self): return self.index == 0
    def go_long(self): self.buy = 1, 50           # far below the market (100): never fills, 50 USDT stay reserved
    def should_cancel_entry(self): return False

def run(order):
    n = 1440 * 2 + 10
    mk = lambda: candles_from_close_prices([100.0] * n)
    cfg = {'starting_balance': 10000, 'fee': 0, 'type': 'spot', 'exchange': 'Sandbox', 'warm_up_candles': 0}
    a, b = (Idle, Resting) if order == 'idle-first' else (Resting, Idle)
    routes = [{'exchange': 'Sandbox', 'strategy': a, 'symbol': 'BTC-USDT', 'timeframe': '1m'},
              {'exchange': 'Sandbox', 'strategy': b, 'symbol': 'ETH-USDT', 'timeframe': '1m'}]
    candles = {'Sandbox-BTC-USDT': {'exchange': 'Sandbox', 'symbol': 'BTC-USDT', 'candles': mk()},
               'Sandbox-ETH-USDT': {'exchange': 'Sandbox', 'symbol': 'ETH-USDT', 'candles': mk()}}
    r = backtest(cfg, routes, [], candles, generate_equity_curve=True)
    return [float(x) for x in CAP]

a, b = run('idle-first'), run('resting-first')
print('idle route first   :', a)
print('resting route first:', b)
ok = all(abs(x - 10000) < 1e-9 for x in a + b)
print('PASS' if ok else 'FAIL: the daily equity samples of a spot session with a resting (never filled) buy order are not the account equity 10000 and depend on the order of the routes')
sys.exit(0 if ok else 1)
