import numpy as np
from jesse.research import backtest
from jesse.strategies import Strategy
from jesse.factories import candles_from_close_prices
import jesse.helpers as jh

events = []
class Flip(Strategy):
    def should_long(self): return self.index == 0
    def go_long(self): self.buy = 1, self.price
    def should_cancel_entry(self): return False
    def on_open_position(self, order):
        events.append(('open', self.position.qty))
        if self.is_long:
            # an oversized, non-reduce-only exit: closes the long and opens a short of 2
            self.broker.sell_at(3, self.price + 5)
    def on_close_position(self, order): events.append(('close', self.position.qty))
    def on_increased_position(self, order): events.append(('inc', self.position.qty))
    def on_reduced_position(self, order): events.append(('red', self.position.qty))

prices = list(range(100, 130))
c = candles_from_close_prices(prices)
cfg = {'starting_balance': 10000, 'fee': 0, 'type': 'futures', 'futures_leverage': 2, 'futures_leverage_mode': 'cross', 'exchange': 'Sandbox', 'warm_up_candles': 0}
routes = [{'exchange': 'Sandbox', 'strategy': Flip, 'symbol': 'BTC-USDT', 'timeframe': '1m'}]
from jesse.store import store
import jesse.modes.backtest_mode as bm
res = backtest(cfg, routes, [], {'Sandbox-BTC-USDT': {'exchange': 'Sandbox', 'symbol': 'BTC-USDT', 'candles': c}})
print('events', events)
print('metrics total', res['metrics'].get('total'), 'net', res['metrics'].get('net_profit'), 'finishing', res['metrics'].get('finishing_balance'))
