# throw-away triage (not a registered check): prefix property on the real code for the indicators the static analysis flags
import numpy as np, sys, warnings
warnings.filterwarnings('ignore')
import jesse.indicators as ta
from jesse.factories import candles_from_close_prices
rng = np.random.default_rng(7)
n = 120
close = 100 + np.cumsum(rng.normal(0, 1, n))
c = candles_from_close_prices(list(close))
c[:, 3] = np.maximum(c[:, 1], c[:, 2]) + rng.random(n)
c[:, 4] = np.minimum(c[:, 1], c[:, 2]) - rng.random(n)
c[:, 5] = rng.random(n) * 100 + 1
names = sys.argv[1:]
def fields(v):
    if hasattr(v, '_fields'): return list(zip(v._fields, v))
    return [('value', v)]
for name in names:
    f = getattr(ta, name)
    full = fields(f(c, sequential=True))
    bad = {}
    for m in range(2, n):
        try:
            pre = fields(f(c[:m].copy(), sequential=True))
        except Exception as e:
            bad.setdefault('raises', []).append(m); continue
        for (fn_, a), (_, b) in zip(full, pre):
            a = np.asarray(a, dtype=float)[:m]; b = np.asarray(b, dtype=float)
            if len(b) != m: bad.setdefault(f'{fn_}:len', []).append(m); continue
            neq = ~((a == b) | (np.isnan(a) & np.isnan(b)) | (np.abs(a - b) <= 1e-9 * np.maximum(1, np.abs(a))))
            if neq.any(): bad.setdefault(fn_, []).append((m, int(np.argmax(neq))))
    print(name, {k: (v[:3], len(v)) for k, v in bad.items()} or 'prefix-stable')
