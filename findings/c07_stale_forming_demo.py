import numpy as np
from jesse.research import backtest
from jesse.strategies import Strategy
seen = []
class S(Strategy):
    def before(self):
        c5 = self.get_candles('Sandbox', 'BTC-USDT', '5m')
        c1 = self.get_candles('Sandbox', 'BTC-USDT', '1m')
        n = len(c1) % 5
        if n and len(c5):
            w = c1[-n:]
            want = [w[0][0], w[0][1], w[-1][2], w[:, 3].max(), w[:, 4].min(), w[:, 5].sum()]
            seen.append((len(c1), list(c5[-1]), want))
    def should_long(self):
        return self.index == 0
    def go_long(self):
        self.buy = 1, 95          # resting limit below the market
    def should_cancel_entry(self): return False
    def on_open_position(self, order): pass
# 1m candles: ts, open, close, high, low, volume
rows = []
ts0 = 1609459200000
prices = [(100, 100, 101, 99), (100, 98, 101, 94), (98, 99, 100, 97), (99, 103, 104, 98), (103, 102, 105, 101),
          (102, 101, 103, 100), (101, 100, 102, 94), (100, 108, 109, 99), (108, 107, 110, 106), (107, 111, 112, 105)]
for i, (o, c, h, l) in enumerate(prices):
    rows.append([ts0 + i * 60000, o, c, h, l, 10])
c = np.array(rows, dtype=float)
cfg = {'starting_balance': 10000, 'fee': 0, 'type': 'futures', 'futures_leverage': 2, 'futures_leverage_mode': 'cross', 'exchange': 'Sandbox', 'warm_up_candles': 0}
routes = [{'exchange': 'Sandbox', 'strategy': S, 'symbol': 'BTC-USDT', 'timeframe': '1m'}]
data_routes = [{'exchange': 'Sandbox', 'symbol': 'BTC-USDT', 'timeframe': '5m'}]
backtest(cfg, routes, data_routes, {'Sandbox-BTC-USDT': {'exchange': 'Sandbox', 'symbol': 'BTC-USDT', 'candles': c}})
bad = [(n, got, want) for n, got, want in seen if not np.allclose(got, want)]
for n, got, want in seen:
    print(n, 'forming 5m =', got, 'expected', want, '' if np.allclose(got, want) else '  <-- STALE')
print('FAIL' if bad else 'PASS')
