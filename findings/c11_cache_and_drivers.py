from jesse.research import backtest
from jesse.strategies import Strategy
from jesse.factories import candles_from_close_prices
class S(Strategy):
    def should_long(self): return self.index == 0
    def go_long(self): self.buy = 1, self.price
    def should_cancel_entry(self): return False
    def update_position(self):
        if self.index == 5: self.liquidate()
c = candles_from_close_prices(list(range(100, 120)))
def run(exchange, fee):
    cfg = {'starting_balance': 10000, 'fee': fee, 'type': 'futures', 'futures_leverage': 2, 'futures_leverage_mode': 'cross', 'exchange': exchange, 'warm_up_candles': 0}
    routes = [{'exchange': exchange, 'strategy': S, 'symbol': 'BTC-USDT', 'timeframe': '1m'}]
    m = backtest(cfg, routes, [], {f'{exchange}-BTC-USDT': {'exchange': exchange, 'symbol': 'BTC-USDT', 'candles': c}})['metrics']
    return m.get('total'), m.get('fee')
print('call 1  Sandbox fee=0     ->', run('Sandbox', 0))
print('call 2  Sandbox fee=0.01  ->', run('Sandbox', 0.01), ' (fresh process reports a non-zero fee)')
print('call 3  Binance Spot name ->', run('Bybit USDT Perpetual', 0.01), ' (fresh process reports 1 trade)')
