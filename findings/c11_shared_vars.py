from jesse.research import backtest
from jesse.strategies import Strategy
from jesse.factories import candles_from_close_prices
class S(Strategy):
    def should_long(self):
        self.shared_vars['calls'] = self.shared_vars.get('calls', 0) + 1
        return self.shared_vars['calls'] == 12          # enters only on the 12th call ever seen in shared_vars
    def go_long(self): self.buy = 1, self.price
    def should_cancel_entry(self): return False
c = candles_from_close_prices(list(range(100, 110)))
cfg = {'starting_balance': 10000, 'fee': 0, 'type': 'futures', 'futures_leverage': 2, 'futures_leverage_mode': 'cross', 'exchange': 'Sandbox', 'warm_up_candles': 0}
routes = [{'exchange': 'Sandbox', 'strategy': S, 'symbol': 'BTC-USDT', 'timeframe': '1m'}]
cd = {'Sandbox-BTC-USDT': {'exchange': 'Sandbox', 'symbol': 'BTC-USDT', 'candles': c}}
r1 = backtest(cfg, routes, [], cd)['metrics']['total']
r2 = backtest(cfg, routes, [], cd)['metrics']['total']
print('first call trades:', r1, ' second call (equal arguments) trades:', r2)
