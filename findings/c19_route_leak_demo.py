from jesse.research import backtest
from jesse.strategies import Strategy
from jesse.factories import candles_from_close_prices
seen = {}
class WithDna(Strategy):
    def hyperparameters(self): return [{'name': 'a', 'type': int, 'min': 0, 'max': 79, 'default': 5}]
    def dna(self): return 'w'
    def should_long(self):
        seen['route1'] = dict(self.hp); return False
    def go_long(self): pass
    def should_cancel_entry(self): return False
class DefaultsOnly(Strategy):
    def hyperparameters(self): return [{'name': 'b', 'type': int, 'min': 0, 'max': 10, 'default': 3}]
    def should_long(self):
        seen['route2'] = dict(self.hp); return False
    def go_long(self): pass
    def should_cancel_entry(self): return False
c1 = candles_from_close_prices(list(range(100, 110)))
c2 = candles_from_close_prices(list(range(200, 210)))
cfg = {'starting_balance': 10000, 'fee': 0, 'type': 'futures', 'futures_leverage': 2, 'futures_leverage_mode': 'cross', 'exchange': 'Sandbox', 'warm_up_candles': 0}
routes = [{'exchange': 'Sandbox', 'strategy': WithDna, 'symbol': 'BTC-USDT', 'timeframe': '1m'},
          {'exchange': 'Sandbox', 'strategy': DefaultsOnly, 'symbol': 'ETH-USDT', 'timeframe': '1m'}]
backtest(cfg, routes, [], {'Sandbox-BTC-USDT': {'exchange': 'Sandbox', 'symbol': 'BTC-USDT', 'candles': c1},
                           'Sandbox-ETH-USDT': {'exchange': 'Sandbox', 'symbol': 'ETH-USDT', 'candles': c2}})
print(seen, "-- expected route2 == {'b': 3}")
