"""
C11 finding 1: research.backtest depends on the INSERTION ORDER of the `candles` dict.

Two `candles` arguments that are equal as Python dicts (same keys, the very same value objects, only inserted in a
different order) give different results, in both simulators.  The simulators walk `for j in candles:` and replay the
minute of one symbol (order fills + fill hooks) before the next symbol, so which symbol's fills hit the shared wallet
first - and what a fill hook of one route sees of the other - follows the caller's dict order, not the routes.

Run:  cd /tmp/wt/tc11 && PYTHONPATH=/tmp/wt/tc11 /venv/bin/python /tmp/wt/tc11.out/finding_1.py
"""
import os
import sys
import warnings

warnings.filterwarnings('ignore')
sys.path.insert(0, '/tmp/wt/tc11')
os.makedirs('/tmp/wt/tc11.out', exist_ok=True)
os.chdir('/tmp/wt/tc11.out')  # jesse creates ./storage when it is imported
import numpy as np
from jesse import research, utils
from jesse.strategies import Strategy


def mk(n, seed, base):
    rng = np.random.RandomState(seed)
    c = np.zeros((n, 6))
    p = base
    for i in range(n):
        o = p
        cl = o * (1 + rng.normal(0, 0.003))
        c[i] = [1609459200000 + i * 60000, o, cl, max(o, cl) * 1.001, min(o, cl) * 0.999, 10]
        p = cl
    return c


class S(Strategy):
    def should_long(self):
        return self.index % 5 == 1

    def should_cancel_entry(self):
        return True

    def go_long(self):
        self.buy = utils.size_to_qty(self.vars.get('cap', 2000), self.price), self.price

    def on_open_position(self, order):
        self.take_profit = self.position.qty, self.price * 1.003
        self.stop_loss = self.position.qty, self.price * 0.997

    def on_close_position(self, order):
        # size the next trade from the wallet (shared by both routes) as it is when this exit fills
        self.vars['cap'] = self.balance * 0.2


EX = 'Ex A'
cfg = {'starting_balance': 10000, 'fee': 0.001, 'type': 'futures', 'futures_leverage': 2,
       'futures_leverage_mode': 'cross', 'exchange': EX, 'warm_up_candles': 0}
routes = [{'exchange': EX, 'strategy': S, 'symbol': 'BTC-USDT', 'timeframe': '1m'},
          {'exchange': EX, 'strategy': S, 'symbol': 'ETH-USDT', 'timeframe': '1m'}]
btc = {'exchange': EX, 'symbol': 'BTC-USDT', 'candles': mk(600, 1, 100)}
eth = {'exchange': EX, 'symbol': 'ETH-USDT', 'candles': mk(600, 2, 50)}
c1 = {f'{EX}-BTC-USDT': btc, f'{EX}-ETH-USDT': eth}
c2 = {f'{EX}-ETH-USDT': eth, f'{EX}-BTC-USDT': btc}

same_args = c1.keys() == c2.keys() and all(c1[k] is c2[k] for k in c1)
print('candles arguments equal (same keys, identical value objects):', same_args)
print('insertion order 1:', list(c1), '\ninsertion order 2:', list(c2))
before = {k: v['candles'].copy() for k, v in c1.items()}

failed = False
for fast in (False, True):
    a = research.backtest(cfg, routes, [], c1, fast_mode=fast)['metrics']
    b = research.backtest(cfg, routes, [], c2, fast_mode=fast)['metrics']
    a2 = research.backtest(cfg, routes, [], c1, fast_mode=fast)['metrics']
    print(f'\nfast_mode={fast}')
    print('  same dict object twice -> equal results       :', a == a2)
    print('  equal dict, other insertion order -> equal    :', a == b)
    for k in ('total', 'net_profit', 'finishing_balance', 'fee', 'largest_winning_trade'):
        print(f'    {k:24s} {a[k]!r:24} vs {b[k]!r}')
    failed |= (a != b)

print('\narguments unmodified:', all(np.array_equal(before[k], c1[k]['candles']) for k in c1))
print('\nproperty C11 requires: two calls with equal arguments return equal results.')
if failed:
    print('FAIL: research.backtest returns different metrics for equal `candles` dicts that differ only in key '
          'insertion order (symbols are replayed in dict order)')
    sys.exit(1)
print('PASS')
