"""
C10 finding 3 (boundary, low severity): the 0.015% "market order" band is not treated consistently AT the
boundary. jesse.helpers.is_price_near() computes abs(1 - p/current) <= 0.00015 in floating point; with the
exactly representable prices current=20000, p=20003 (exactly +0.015%) the quotient rounds up and the order is
NOT a market order, while p=19997 (exactly -0.015%) IS a market order. Whatever "within 0.015 percent" means at
the boundary (inclusive or exclusive), one of the two symmetric cases is routed against the rule - for entries
(Strategy._submit_buy_orders) and for exits (Broker.reduce_position_at) alike.

Run:  cd /tmp/wt/hc10 && PYTHONPATH=/tmp/wt/hc10 /venv/bin/python /tmp/wt/hc10.out/finding_3.py
"""
import sys, warnings
warnings.filterwarnings('ignore')
from fractions import Fraction
import numpy as np
import jesse.helpers as jh
from jesse.strategies import Strategy
from jesse.research import backtest
from jesse.store import store

from jesse.exchanges.sandbox.Sandbox import Sandbox

EX = 'Binance Perpetual Futures'
CUR = 20000.0
SUBMITTED = []     # every order handed to the (sandbox) exchange: (type, side, qty, price, reduce_only)
for _name in ('market_order', 'limit_order', 'stop_order'):   # observe only; behaviour is unchanged
    def _wrap(orig):
        def f(self, symbol, qty, price, side, reduce_only):
            o = orig(self, symbol, qty, price, side, reduce_only)
            SUBMITTED.append((o.type, side, qty, price, reduce_only))
            return o
        return f
    setattr(Sandbox, _name, _wrap(getattr(Sandbox, _name)))


def make(name, entry_price, exits=None):
    class S(Strategy):
        def should_long(self):
            return self.index == 0

        def should_cancel_entry(self):
            return False

        def go_long(self):
            self.buy = (1, entry_price)

        def on_open_position(self, order):
            if exits:
                self.stop_loss, self.take_profit = exits
    return S


def run(strategy):
    SUBMITTED.clear()
    t0 = 1_600_041_600_000
    c = np.array([[t0 + i * 60_000, CUR, CUR, CUR, CUR, 10] for i in range(4)], dtype=float)
    cfg = {'starting_balance': 1_000_000, 'fee': 0, 'type': 'futures', 'futures_leverage': 10,
           'futures_leverage_mode': 'cross', 'exchange': EX, 'warm_up_candles': 0}
    routes = [{'exchange': EX, 'strategy': strategy, 'symbol': 'BTC-USDT', 'timeframe': '1m'}]
    backtest(cfg, routes, [], {jh.key(EX, 'BTC-USDT'): {'exchange': EX, 'symbol': 'BTC-USDT', 'candles': c}})
    return list(SUBMITTED)


UP, DOWN = 20003.0, 19997.0
for p in (UP, DOWN):   # exact distance, no floating point involved
    print(f'p={p}: |p-current|/current = {abs(Fraction(p) - Fraction(CUR)) / Fraction(CUR)} '
          f'(0.015% = {Fraction(15, 100000)});  is_price_near -> {jh.is_price_near(p, CUR)}')

entry_up = run(make('entry_up', UP))[0][0]
entry_down = run(make('entry_down', DOWN))[0][0]
# long 1 at 20000 (market), then in on_open_position: stop-loss 19997, take-profit 20003
ex = run(make('exits', CUR, exits=((1, DOWN), (1, UP))))
sl = [o[0] for o in ex if o[1] == 'sell' and o[3] == DOWN][0]
tp = [o[0] for o in ex if o[1] == 'sell' and o[3] == UP][0]

print()
print(f'current price {CUR}; both declared prices are EXACTLY 0.015% away from it')
print(f'  entry buy (1, {UP})  -> {entry_up}')
print(f'  entry buy (1, {DOWN})  -> {entry_down}')
print(f'  long exit take_profit (1, {UP}) -> {tp}')
print(f'  long exit stop_loss   (1, {DOWN}) -> {sl}')
print('Property C10 requires: the order type depends only on p relative to the current price, "within 0.015')
print('percent a market order". Two prices at exactly the same relative distance must fall on the same side of')
print('that rule: both MARKET (boundary inclusive, which is what the <= in the code intends), or STOP/LIMIT and')
print('LIMIT/STOP (boundary exclusive).')

entries_consistent = (entry_up == 'MARKET') == (entry_down == 'MARKET')
exits_consistent = (tp == 'MARKET') == (sl == 'MARKET')
if not entries_consistent or not exits_consistent:
    print('FAIL: at exactly 0.015% the router sends p=19997 as MARKET but p=20003 as STOP/LIMIT (float rounding in '
          'is_price_near), so the boundary case violates the rule under either reading')
    sys.exit(1)
print('PASS: boundary handled consistently')
