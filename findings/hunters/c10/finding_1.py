"""
C10 finding 1: exits declared in go_long()/go_short() that lie on the "wrong" side of the ENTRY price are
replaced in Strategy._on_open_position() by broker.sell_at_market()/buy_at_market(): a MARKET order that is
NOT reduce-only, whose type was chosen from p-vs-entry-price instead of p-vs-current-price. When the declared
exit quantity is larger than what has been filled so far (scaled entries), the order flips the position.

Scenario (futures, 1m, price flat at 100 then 99): classic DCA declaration in go_long()
    buy         = [(1, 100 = current price -> market), (1, 95 -> limit)]
    take_profit = (2, 98)      # above the average entry 97.5, below the first fill
Run:  cd /tmp/wt/hc10 && PYTHONPATH=/tmp/wt/hc10 /venv/bin/python /tmp/wt/hc10.out/finding_1.py
"""
import sys, warnings
warnings.filterwarnings('ignore')
import numpy as np
import jesse.helpers as jh
from jesse.strategies import Strategy
from jesse.research import backtest
from jesse.store import store

EX = 'Binance Perpetual Futures'
SNAP = []      # (hook, step, current price, position qty, exit orders)
QTYS = []      # position qty after every strategy step


class DCA(Strategy):
    def should_long(self):
        return self.index == 0

    def should_short(self):
        return False            # the strategy NEVER asks for a short

    def should_cancel_entry(self):
        return False

    def go_long(self):
        self.buy = [(1, self.price), (1, 95)]
        self.take_profit = (2, 98)

    def on_open_position(self, order):
        exits = [(o.type, o.side, o.qty, o.price, o.reduce_only, o.submitted_via)
                 for o in store.orders.get_orders(self.exchange, self.symbol) if o.submitted_via is not None]
        SNAP.append(('on_open_position', self.index, self.price, self.position.qty, exits))

    def after(self):
        QTYS.append(self.position.qty)


def candles(closes):
    t0, out, prev = 1_600_041_600_000, [], closes[0]
    for i, c in enumerate(closes):
        out.append([t0 + i * 60_000, prev, c, max(prev, c), min(prev, c), 10])
        prev = c
    return np.array(out, dtype=float)


cfg = {'starting_balance': 100_000, 'fee': 0, 'type': 'futures', 'futures_leverage': 10,
       'futures_leverage_mode': 'cross', 'exchange': EX, 'warm_up_candles': 0}
routes = [{'exchange': EX, 'strategy': DCA, 'symbol': 'BTC-USDT', 'timeframe': '1m'}]
data = {jh.key(EX, 'BTC-USDT'): {'exchange': EX, 'symbol': 'BTC-USDT',
                                 'candles': candles([100, 100, 100, 99, 99, 99])}}
backtest(cfg, routes, [], data)

for s in SNAP:
    print(s)
print('position qty after each strategy step:', QTYS)

hook, step, cur, qty, exits = SNAP[0]
tp = [e for e in exits if e[5] == 'take-profit']
print()
print(f'At on_open_position: current price {cur}, long {qty}; declared take_profit = (2, 98).')
print('Property C10 requires: ONE exit order qty 2 @ 98, sell side, reduce-only; 98 is more than 0.015% below the')
print('current price 100, i.e. on the loss side of the current price -> a STOP order. The position must never')
print('change side because of an exit order.')
print('Observed take-profit order(s):', tp)

problems = []
if not tp or tp[0][0] != 'STOP' or tp[0][3] != 98:
    problems.append(f'exit order is {tp[0][0]} @ {tp[0][3]} instead of STOP @ 98')
if tp and not tp[0][4]:
    problems.append('exit order is not reduce-only')
if any(q < 0 for q in QTYS):
    problems.append(f'long-only strategy ended up SHORT (qty {min(QTYS)}) because the non-reduce-only exit of 2 '
                    f'hit a position of 1')
if len(SNAP) > 1:
    problems.append(f'on_open_position fired a second time for the flipped position: {SNAP[1]}')

if problems:
    for p in problems:
        print(' -', p)
    print('FAIL: go_long-declared exit on the other side of the entry price is sent as a non-reduce-only MARKET '
          'order (routing by entry price, not current price) and flips the position when qty exceeds the filled size')
    sys.exit(1)
print('PASS: no violation observed')
