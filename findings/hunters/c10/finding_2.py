"""
C10 finding 2 (spot): an exit that C10 routes to a MARKET order (price within 0.015% of the current price,
e.g. self.liquidate() on a losing position, or a stop-loss moved next to the price) is NOT submitted when a
take-profit LIMIT order of the same position is resting: the smart router does not cancel / account for the
resting exit and the sandbox raises InsufficientBalance, aborting the whole backtest. The very same
declaration 0.02% away from the price (routed to a STOP order) is accepted, and so is everything on futures.

Run:  cd /tmp/wt/hc10 && PYTHONPATH=/tmp/wt/hc10 /venv/bin/python /tmp/wt/hc10.out/finding_2.py
"""
import sys, warnings
warnings.filterwarnings('ignore')
import numpy as np
import jesse.helpers as jh
from jesse.strategies import Strategy
from jesse.research import backtest
from jesse.store import store

LOG = []


def make(mode):
    class S(Strategy):
        def should_long(self):
            return self.index == 0

        def go_long(self):
            self.buy = (1, self.price)

        def on_open_position(self, order):
            self.take_profit = (1, self.price * 1.05)          # legal on spot: declared in on_open_position

        def update_position(self):
            if self.index != 3:
                return
            if mode == 'liquidate':
                self.liquidate()                                # pnl < 0 -> stop_loss = (qty, current price)
            elif mode == 'near':
                self.stop_loss = (1, self.price * (1 - 0.0001))  # within 0.015% -> MARKET
            elif mode == 'far':
                self.stop_loss = (1, self.price * (1 - 0.0002))  # outside 0.015% -> STOP

        def after(self):
            if self.index == 3:
                LOG.append((mode, self.exchange_type, self.price, self.position.qty,
                            [(o.type, o.side, o.qty, round(o.price, 4), o.reduce_only, o.status, o.submitted_via)
                             for o in store.orders.get_orders(self.exchange, self.symbol)
                             if o.submitted_via is not None]))
    return S


def candles(closes):
    t0, out, prev = 1_600_041_600_000, [], closes[0]
    for i, c in enumerate(closes):
        out.append([t0 + i * 60_000, prev, c, max(prev, c), min(prev, c), 10])
        prev = c
    return np.array(out, dtype=float)


def run(mode, typ):
    ex = 'Binance Spot' if typ == 'spot' else 'Binance Perpetual Futures'
    cfg = {'starting_balance': 100_000, 'fee': 0, 'type': typ, 'futures_leverage': 1,
           'futures_leverage_mode': 'cross', 'exchange': ex, 'warm_up_candles': 0}
    routes = [{'exchange': ex, 'strategy': make(mode), 'symbol': 'BTC-USDT', 'timeframe': '1m'}]
    data = {jh.key(ex, 'BTC-USDT'): {'exchange': ex, 'symbol': 'BTC-USDT',
                                     'candles': candles([100, 100, 99, 98, 98, 98])}}
    try:
        backtest(cfg, routes, [], data)
        return 'ok'
    except Exception as e:
        from jesse.config import reset_config
        reset_config()
        store.reset()
        return f'{type(e).__name__}: {e}'


results = {}
for mode, typ in [('far', 'spot'), ('liquidate', 'futures'), ('near', 'futures'), ('liquidate', 'spot'), ('near', 'spot')]:
    results[(mode, typ)] = run(mode, typ)
    print(f'{typ:8s} {mode:10s} -> {results[(mode, typ)]}')
print()
for l in LOG:
    print('state after the step:', l)

print()
print('Long 1 BTC opened at 100, take_profit (1, 105) resting as a reduce-only LIMIT, price now 98 (losing).')
print('Property C10 requires: the exit (1, p) with p within 0.015% of the current price (this is what liquidate()')
print('declares) is submitted as a reduce-only sell MARKET order of exactly qty 1, and closes the position.')
bad = {k: v for k, v in results.items() if v != 'ok'}
controls_ok = all(results[k] == 'ok' for k in [('far', 'spot'), ('liquidate', 'futures'), ('near', 'futures')])
if bad and controls_ok:
    print('Observed: controls (STOP-routed exit on spot; same MARKET-routed exits on futures) work, but on spot:')
    for k, v in bad.items():
        print('  ', k, '->', v)
    print('FAIL: on spot a MARKET-routed exit (liquidate() / stop-loss within 0.015% of price) is never submitted '
          'while a take-profit limit rests - InsufficientBalance aborts the backtest')
    sys.exit(1)
print('PASS: no violation observed' if not bad else f'UNEXPECTED: {bad}')
sys.exit(0 if not bad else 2)
