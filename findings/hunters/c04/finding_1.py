"""
C04 finding 1: after resting spot sell orders have been CANCELLED, a sell of exactly the base
balance is rejected with InsufficientBalance although no sell order is resting any more.

SpotExchange keeps running totals (limit_orders_sum / stop_orders_sum) of the resting sells, updated
with sum_floats/subtract_floats, which round to a double after every step. Adding q1, q2, q3 and then
subtracting q1, q2, q3 does therefore not return to 0 but to a tiny positive residue, and the next
sell is checked as  residue + qty > base.

History (fee 0, one route, plain strategy API, both simulators):
  buy 2.0 BTC at market                       -> base = 2.0
  take-profit in three equal parts qty/3      -> 3 resting LIMIT sells of 0.6666666666666666 (accepted)
  take-profit replaced by one order (qty, p)  -> the 3 parts are cancelled, then a LIMIT sell of 2.0
                                                 is submitted while NOTHING is resting: must be accepted
"""
import sys, warnings
warnings.filterwarnings('ignore')
import numpy as np
import jesse.helpers as jh
from jesse import research
from jesse.strategies import Strategy
from jesse.exceptions import InsufficientBalance
from jesse.services import selectors
from jesse.store import store

EX, SYM = 'Fake Exchange', 'BTC-USDT'
seen = {}


class SplitThenMergeTakeProfit(Strategy):
    def should_long(self): return self.index == 0
    def should_cancel_entry(self): return False
    def go_long(self): self.buy = 2, self.price          # market buy of 2 BTC
    def on_open_position(self, order):
        q = self.position.qty
        self.take_profit = [(q / 3, 150), (q / 3, 160), (q / 3, 170)]

    def update_position(self):
        if self.index == 3:
            e = selectors.get_exchange(EX)
            seen['base'] = e.assets['BTC']
            seen['pos'] = self.position.qty
            seen['resting_before'] = [(o.type, o.qty, o.price) for o in store.orders.get_active_orders(EX, SYM) if o.is_active]
            # merge the three parts into ONE take-profit for the whole position
            self.take_profit = self.position.qty, 180

    def after(self):
        e = selectors.get_exchange(EX)
        seen['limit_orders_sum'] = e.limit_orders_sum.get(SYM)
        seen['resting'] = [(o.type, o.qty, o.price) for o in store.orders.get_active_orders(EX, SYM) if o.is_active]


def run(fast_mode):
    seen.clear()
    n = 10
    candles = np.array([[1609459200000 + i * 60000, 100, 100, 100.5, 99.5, 10] for i in range(n)], dtype=float)
    config = {'starting_balance': 10_000, 'fee': 0, 'type': 'spot', 'exchange': EX, 'warm_up_candles': 0}
    routes = [{'exchange': EX, 'strategy': SplitThenMergeTakeProfit, 'symbol': SYM, 'timeframe': '1m'}]
    data = {jh.key(EX, SYM): {'exchange': EX, 'symbol': SYM, 'candles': candles}}
    try:
        research.backtest(config, routes, [], data, fast_mode=fast_mode)
        return None
    except InsufficientBalance as ex:
        return str(ex)
    finally:
        from jesse.config import reset_config
        reset_config()


failed = False
for fast in (False, True):
    err = run(fast)
    print(f'--- simulator fast_mode={fast}')
    print('  base balance / position before the merge :', seen.get('base'), '/', seen.get('pos'))
    print('  resting sells before the merge           :', seen.get('resting_before'))
    print('  new order                                : LIMIT sell', seen.get('pos'), '@ 180, after cancelling the 3 parts')
    print('  property requires                        : accepted (0 resting + 2.0 does not exceed base 2.0)')
    print('  observed                                 :', 'REJECTED -> ' + err if err else 'accepted')
    if err:
        failed = True

if failed:
    print('FAIL: a spot sell of exactly the base balance is rejected with InsufficientBalance after earlier sell '
          'orders were cancelled, because limit_orders_sum keeps a rounding residue instead of returning to 0')
    sys.exit(1)
print('OK')
