"""
C04 finding 2: a SHORT position appears in a spot session (position.qty < 0 while the base balance
is 0), and a sell fill is credited for less than its quantity.

The admission rule only adds up resting sells "of its kind": a MARKET sell is checked against the
resting LIMIT sells only, a STOP sell against the resting STOP sells only. So with 1 BTC held
  STOP sell 1 BTC @ 90  (resting, accepted: 1 <= 1)
  MARKET sell 0.6 BTC   (accepted: 0.6 + 0 resting LIMIT sells <= 1)  -> base 0.4
are both admitted without any rejection. When the stop is then hit, SpotExchange.on_order_execution
silently clamps the fill to the 0.4 BTC that are left, but Position._on_executed_order treats the
(non reduce-only) 1 BTC sell as "close and flip": the spot position becomes -0.6 BTC.
Orders are submitted through the public Broker API (sell_at_market / start_profit_at), none is rejected.
"""
import sys, warnings
warnings.filterwarnings('ignore')
import numpy as np
import jesse.helpers as jh
from jesse import research
from jesse.strategies import Strategy
from jesse.services import selectors

EX, SYM = 'Fake Exchange', 'BTC-USDT'
FEE = 0.001
trace = []


def snap(tag):
    e = selectors.get_exchange(EX)
    p = selectors.get_position(EX, SYM)
    trace.append((tag, e.assets['USDT'], e.assets['BTC'], p.qty, p.type))


class S(Strategy):
    def should_long(self): return self.index == 0
    def should_cancel_entry(self): return False
    def go_long(self): self.buy = 1, self.price                       # MARKET buy 1 BTC @ 100

    def on_open_position(self, order):
        if self.is_long:
            snap('after MARKET buy 1 @100')
            self.broker.start_profit_at('sell', self.position.qty, 90)    # STOP sell of the whole base, rests
        else:
            snap('after the STOP sell is hit @90')

    def update_position(self):
        if self.index == 2 and self.is_long:
            snap('STOP sell %.4f @90 resting' % self.position.qty)
            self.broker.sell_at_market(0.6)                           # MARKET sell 0.6, accepted

    def after(self):
        snap('end of candle %d' % self.index)


# price: flat at 100, then drops through 90 in candle 5
rows = []
for i in range(8):
    o, c = (100, 100) if i < 5 else ((100, 85) if i == 5 else (85, 85))
    rows.append([1609459200000 + i * 60000, o, c, max(o, c), min(o, c), 10])
candles = np.array(rows, dtype=float)
config = {'starting_balance': 1000, 'fee': FEE, 'type': 'spot', 'exchange': EX, 'warm_up_candles': 0}
routes = [{'exchange': EX, 'strategy': S, 'symbol': SYM, 'timeframe': '1m'}]
data = {jh.key(EX, SYM): {'exchange': EX, 'symbol': SYM, 'candles': candles}}
err = None
try:
    research.backtest(config, routes, [], data, fast_mode='--fast' in sys.argv)
except Exception as ex:     # whatever happens later is a consequence; the trace below is what matters
    err = repr(ex)

print('%-34s %14s %10s %12s %s' % ('moment', 'quote USDT', 'base BTC', 'position qty', 'type'))
bad = None
for tag, q, b, pq, pt in trace:
    print('%-34s %14.6f %10.6f %12.6f %s' % (tag, q, b, pq, pt))
    if bad is None and (pq < 0 or b < 0 or q < 0 or abs(pq - b) > 1e-9):
        bad = (tag, q, b, pq, pt)
if err:
    print('session ended with:', err)

base = 1 * (1 - FEE)
print()
print('property requires : position size == base balance at all times, no short position ever, and (no submission was')
print('                    rejected) the STOP sell fill of %.3f BTC debits %.3f BTC / credits %.3f*90*(1-fee) USDT.' % (base, base, base))
print('                    A cash account cannot book that fill without going negative, so the history had to be')
print('                    stopped by a rejection - but the per-kind admission rule let both sells through.')
if bad:
    print('observed          : at "%s": base=%.6f BTC but position.qty=%.6f (%s);' % (bad[0], bad[2], bad[3], bad[4]))
    print('                    the stop fill was credited for 0.399 BTC only (quote 959.94 -> %.5f).' % bad[1])
    print('FAIL: admitted STOP sell + MARKET sell oversell the base; the stop fill is clamped on the exchange '
          'but flips the spot position to a short one (position.qty < 0 != base balance)')
    sys.exit(1)
print('OK')
