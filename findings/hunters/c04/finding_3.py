"""
C04 finding 3: a cancelled spot BUY does not release exactly what it reserved: the quote balance
drifts, and a later buy that costs exactly the (reference) free balance is rejected.

SpotExchange reserves with   subtract_floats(balance, qty*price)   and releases with
sum_floats(balance, qty*price). Both helpers compute Decimal(str(a)) +/- Decimal(str(b)) and round
the result back to a double, so  (1000 - c) + c  need not be 1000 (plain float arithmetic and exact
arithmetic both give 1000 here).

History (fee 0, starting balance 1000 USDT, plain strategy API, both simulators):
  LIMIT buy 2.2 @ 97.8   reserves 2.2*97.8 = 215.16000000000003        (accepted)
  cancel it              must release exactly that -> free quote 1000
  MARKET buy 10 @ 100    costs 1000, nothing else is resting -> does not exceed 1000: must be accepted
"""
import sys, warnings
warnings.filterwarnings('ignore')
import numpy as np
import jesse.helpers as jh
from jesse import research
from jesse.strategies import Strategy
from jesse.exceptions import InsufficientBalance
from jesse.services import selectors
from jesse.store import store

EX, SYM = 'Fake Exchange', 'BTC-USDT'
seen = {}


class S(Strategy):
    def should_long(self): return self.index in (0, 3)
    def should_cancel_entry(self): return True            # the resting entry is cancelled on the next candle
    def go_long(self):
        if self.index == 0:
            self.buy = 2.2, 97.8                           # LIMIT buy below the market (price is 100)
        else:
            seen['before_2nd_buy'] = selectors.get_exchange(EX).assets['USDT']
            seen['resting'] = [o for o in store.orders.get_active_orders(EX, SYM) if o.is_active]
            self.buy = 10, self.price                      # MARKET buy 10 @ 100 = 1000 USDT

    def after(self):
        seen.setdefault('trace', []).append((self.index, selectors.get_exchange(EX).assets['USDT']))


def run(fast_mode):
    seen.clear()
    candles = np.array([[1609459200000 + i * 60000, 100, 100, 100.5, 99.5, 10] for i in range(8)], dtype=float)
    config = {'starting_balance': 1000, 'fee': 0, 'type': 'spot', 'exchange': EX, 'warm_up_candles': 0}
    routes = [{'exchange': EX, 'strategy': S, 'symbol': SYM, 'timeframe': '1m'}]
    data = {jh.key(EX, SYM): {'exchange': EX, 'symbol': SYM, 'candles': candles}}
    try:
        research.backtest(config, routes, [], data, fast_mode=fast_mode)
        return None
    except InsufficientBalance as ex:
        return str(ex)
    finally:
        from jesse.config import reset_config
        reset_config()


failed = False
for fast in (False, True):
    err = run(fast)
    print(f'--- simulator fast_mode={fast}')
    print('  quote balance per candle                 :', seen.get('trace'))
    print('  reserved by the LIMIT buy                :', repr(2.2 * 97.8), '  plain float (1000-c)+c =', (1000 - 2.2 * 97.8) + 2.2 * 97.8)
    print('  free quote after the cancellation        :', repr(seen.get('before_2nd_buy')), ' resting orders:', len(seen.get('resting', [])))
    print('  property requires                        : 1000.0 released exactly; MARKET buy 10 @ 100 (cost 1000.0) accepted')
    print('  observed                                 :', 'REJECTED -> ' + err if err else 'accepted')
    if err or seen.get('before_2nd_buy') != 1000:
        failed = True

if failed:
    print('FAIL: cancelling a spot buy releases a different amount than was reserved (1000 -> 999.9999999999999), '
          'so a buy costing exactly the free quote balance is rejected with InsufficientBalance')
    sys.exit(1)
print('OK')
