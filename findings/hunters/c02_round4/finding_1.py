"""
C02 - fast simulator with a SECOND SYMBOL (here: a mere data route) and a step above one minute: a MARKET order that a
fill hook submits in the middle of a chunk stays pending until the end of the chunk. The later candles of the chunk
are matched while it is pending, so a resting STOP order is filled that the normal simulator (and the fast simulator
with this symbol alone) had cancelled, and the MARKET order itself is never filled.

The MARKET order here is the documented "exit within 0.015% of the price" (it carries the requested price and is
filled at the end of its minute by _execute_market_orders()). That routing is NOT what is reported: what is reported
is that the multi-symbol branch of _simulate_new_candles() never runs the end-of-minute step at all.

Run:  cd /tmp/wt/nc02 && PYTHONPATH=/tmp/wt/nc02 /venv/bin/python /tmp/wt/nc02.out/finding_1.py
"""
import sys, warnings
warnings.filterwarnings('ignore')
import numpy as np
import jesse.helpers as jh
from jesse import research
from jesse.models import Order
from jesse.store import store
from jesse.strategies import Strategy

EX, T0 = 'Fake Exchange', 1609459200000
LOG = []
_init, _exec, _cancel = Order.__init__, Order.execute, Order.cancel


def minute():
    return (store.app.time - T0) / 60_000


def init(self, attributes=None, should_silent=False, **kw):
    _init(self, attributes, should_silent, **kw)
    LOG.append(('submit', minute(), self.symbol, self.type, self.side, self.price))


def execute(self, silent=False):
    was = self.status
    _exec(self, silent)
    if was != self.status:
        LOG.append(('fill', minute(), self.symbol, self.type, self.side, self.price))


def cancel(self, silent=False, source=''):
    was = self.status
    _cancel(self, silent, source)
    if was != self.status:
        LOG.append(('cancel', minute(), self.symbol, self.type, self.side, self.price))


Order.__init__, Order.execute, Order.cancel = init, execute, cancel


class Scalper(Strategy):
    def should_long(self): return self.index == 0
    def should_cancel_entry(self): return False
    def go_long(self): self.buy = 1, 100            # LIMIT entry, reached in minute 6 (2nd minute of the 2nd 5m chunk)
    def on_open_position(self, order):
        self.stop_loss = 1, 98.5                     # STOP
        self.take_profit = 1, 100.01                 # 0.01% above the fill price -> routed to a MARKET order


def candles(ohlc):
    return np.array([[T0 + i * 60_000, o, c, h, l, 1.0] for i, (o, c, h, l) in enumerate(ohlc)], dtype=float)


# (open, close, high, low): flat at 101, minute 6 falls 101 -> 99.5 (fills the entry at 100), minute 7 falls to 98
aaa = [(101, 101, 101, 101)] * 6 + [(101, 99.5, 101, 99.5), (99.5, 98, 99.5, 98)] + [(98, 98, 98, 98)] * 7
bbb = [(50, 50, 50, 50)] * 15   # the other symbol never moves and is never traded


def run(fast, second_symbol):
    LOG.clear()
    cfg = {'starting_balance': 10_000, 'fee': 0, 'type': 'futures', 'futures_leverage': 2,
           'futures_leverage_mode': 'cross', 'exchange': EX, 'warm_up_candles': 0}
    routes = [{'exchange': EX, 'strategy': Scalper, 'symbol': 'AAA-USDT', 'timeframe': '5m'}]
    data_routes, cs = [], {jh.key(EX, 'AAA-USDT'): {'exchange': EX, 'symbol': 'AAA-USDT', 'candles': candles(aaa)}}
    if second_symbol:
        data_routes = [{'exchange': EX, 'symbol': 'BBB-USDT', 'timeframe': '5m'}]
        cs[jh.key(EX, 'BBB-USDT')] = {'exchange': EX, 'symbol': 'BBB-USDT', 'candles': candles(bbb)}
    research.backtest(cfg, routes, data_routes, cs, fast_mode=fast)
    return [e for e in LOG if e[0] != 'submit' or e[1] < 15]


runs = {}
for fast in (False, True):
    for second in (False, True):
        runs[fast, second] = run(fast, second)
        print(f'--- fast_mode={fast}, data route on a second symbol={second}: (event, minute boundary, symbol, type, side, price)')
        for e in runs[fast, second]:
            print('   ', e)

fills = {k: [e for e in v if e[0] == 'fill'] for k, v in runs.items()}
print()
print('Property: the MARKET sell is filled at the moment it is submitted (minute boundary 7.0), before any later candle is')
print('processed; the STOP @98.5 is cancelled with the closed position and must never be filled afterwards.')
print('normal, 1 symbol :', fills[False, False][1:])
print('normal, 2 symbols:', fills[False, True][1:])
print('fast,   1 symbol :', fills[True, False][1:])
print('fast,   2 symbols:', fills[True, True][1:])
if fills[True, True] != fills[False, True]:
    print('FAIL: with a second symbol in the session the fast simulator leaves a hook-submitted MARKET exit pending for the rest '
          'of the chunk, matches the next candle meanwhile and fills a STOP @98.5 that all other runs cancelled at minute 7')
    sys.exit(1)
print('OK')
