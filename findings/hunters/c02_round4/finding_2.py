"""
C02 - fast simulator, two symbols, step > 1 minute: a MARKET order that a hook submits in the middle of a chunk is
not filled when it is submitted (as the normal simulator does at the end of that minute) but one minute later,
while the NEXT candle of its symbol is being matched.

Run:  cd /tmp/wt/nc02 && PYTHONPATH=/tmp/wt/nc02 /venv/bin/python /tmp/wt/nc02.out/finding_2.py
"""
import sys, warnings
warnings.filterwarnings('ignore')
import numpy as np
import jesse.helpers as jh
from jesse import research
from jesse.models import Order
from jesse.store import store
from jesse.strategies import Strategy

EX, T0 = 'Fake Exchange', 1609459200000
LOG = []
_init, _exec = Order.__init__, Order.execute


def init(self, attributes=None, should_silent=False, **kw):
    _init(self, attributes, should_silent, **kw)
    LOG.append(('submit', (store.app.time - T0) / 60_000, self.symbol, self.type, self.side, self.price))


def execute(self, silent=False):
    was = self.status
    _exec(self, silent)
    if was != self.status:
        LOG.append(('fill', (self.executed_at - T0) / 60_000, self.symbol, self.type, self.side, self.price))


Order.__init__, Order.execute = init, execute


class HoldsAAA(Strategy):
    """opens a long at the first execution; closes it at market as soon as the other route opens a position"""
    def should_long(self): return self.index == 0
    def should_cancel_entry(self): return False
    def go_long(self): self.buy = 1, self.price                  # MARKET entry
    def on_route_open_position(self, strategy): self.liquidate()  # MARKET exit, submitted from a fill hook of BBB


class EntersBBB(Strategy):
    def should_long(self): return self.index == 0
    def should_cancel_entry(self): return False
    def go_long(self): self.buy = 1, 95                           # LIMIT entry, reached in minute 6


def candles(ohlc):
    return np.array([[T0 + i * 60_000, o, c, h, l, 1.0] for i, (o, c, h, l) in enumerate(ohlc)], dtype=float)


flat = (100, 100, 100, 100)
#            minutes 0-4   5     6 (close 101)          7 (trades 101..103)     8, 9
aaa = [flat] * 5 + [flat, (100, 101, 101, 100), (101, 103, 103, 101), (103, 103, 103, 103)] + [(103, 103, 103, 103)] * 6
bbb = [flat] * 5 + [flat, (100, 94, 100, 94), (94, 94, 94, 94), (94, 94, 94, 94)] + [(94, 94, 94, 94)] * 6


def run(fast):
    LOG.clear()
    cfg = {'starting_balance': 10_000, 'fee': 0, 'type': 'futures', 'futures_leverage': 2,
           'futures_leverage_mode': 'cross', 'exchange': EX, 'warm_up_candles': 0}
    routes = [{'exchange': EX, 'strategy': HoldsAAA, 'symbol': 'AAA-USDT', 'timeframe': '5m'},
              {'exchange': EX, 'strategy': EntersBBB, 'symbol': 'BBB-USDT', 'timeframe': '5m'}]
    cs = {jh.key(EX, s): {'exchange': EX, 'symbol': s, 'candles': candles(c)} for s, c in (('AAA-USDT', aaa), ('BBB-USDT', bbb))}
    research.backtest(cfg, routes, [], cs, fast_mode=fast)
    return list(LOG)


res = {}
for fast in (False, True):
    res[fast] = run(fast)
    print(f'--- fast_mode={fast}: (event, minutes since session start, symbol, type, side, price)')
    for e in res[fast]:
        print('   ', e)


def exit_of(log):
    sub = [e for e in log if e[0] == 'submit' and e[2] == 'AAA-USDT' and e[3] == 'MARKET' and e[4] == 'sell'][0]
    fil = [e for e in log if e[0] == 'fill' and e[2] == 'AAA-USDT' and e[3] == 'MARKET' and e[4] == 'sell'][0]
    return sub[1], fil[1]


n_sub, n_fill = exit_of(res[False])
f_sub, f_fill = exit_of(res[True])
print()
print('The BBB LIMIT buy @95 fills in minute 6 (07:00 boundary = 7.0); its hook makes AAA submit a MARKET sell @101,')
print('the current AAA price. The property requires this MARKET order to be filled at the moment it is submitted,')
print('before any later candle is processed, i.e. executed_at = 7.0 (end of minute 6) in both simulators.')
print(f'normal simulator: submitted at {n_sub}, executed_at {n_fill}')
print(f'fast simulator  : submitted at {f_sub}, executed_at {f_fill}')
if f_fill != f_sub or f_fill != n_fill:
    print('FAIL: with two symbols and a 5m step the fast simulator leaves a hook-submitted MARKET order pending at the end '
          'of its minute and fills it one minute later, inside the next candle of its symbol (normal simulator: same minute)')
    sys.exit(1)
print('OK')
