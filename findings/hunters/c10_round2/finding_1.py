"""C10 finding 1: liquidate() called in on_reduced_position is silently ignored (no order is submitted)
when the partial exit that has just been filled had the same quantity as what is left of the position.

Strategy: long 1 @ 100, take_profit = (0.5, 110) (scale out half). When that fills, on_reduced_position calls
self.liquidate() to close the other half at market. liquidate() sets take_profit = (position.qty, price)
= (0.5, 110), which is equal to the previous declaration (whose order is already executed), so
_detect_and_handle_entry_and_exit_modifications() sees "no modification" and submits nothing.
"""
import warnings
warnings.filterwarnings('ignore')
import sys
import numpy as np
import jesse.helpers as jh
from jesse.strategies import Strategy
from jesse import research
from jesse.store import store
from jesse.exchanges.sandbox.Sandbox import Sandbox

EX, SYM = 'Binance Perpetual Futures', 'BTC-USDT'
SUBMITTED = []   # every order that reaches the (sandbox) exchange driver
EVENTS = []

for kind in ('market_order', 'limit_order', 'stop_order'):
    def wrap(kind, orig):
        def f(self, symbol, qty, price, side, reduce_only):
            o = orig(self, symbol, qty, price, side, reduce_only)
            SUBMITTED.append((o.type, side, abs(qty), price, reduce_only))
            return o
        return f
    setattr(Sandbox, kind, wrap(kind, getattr(Sandbox, kind)))


def candles(closes):
    ts = 1609459200000
    out, prev = [], closes[0]
    for i, c in enumerate(closes):
        out.append([ts + i * 60000, prev, c, max(prev, c), min(prev, c), 10])
        prev = c
    return np.array(out, dtype=float)


class HalfThenLiquidate(Strategy):
    def should_long(self):
        return self.index == 0

    def go_long(self):
        self.buy = 1, self.price                 # market entry of 1 @ 100

    def on_open_position(self, order):
        self.take_profit = 0.5, 110              # scale out half at 110

    def on_reduced_position(self, order):
        EVENTS.append(('before liquidate', float(self.position.qty), float(self.price), float(self.position.pnl)))
        self.liquidate()                         # docstring: "closes open position with a MARKET order"

    def after(self):
        active = [(o.type, o.side, o.qty, o.price) for o in
                  store.orders.get_active_orders(self.exchange, self.symbol) if o.is_active]
        EVENTS.append(('step', self.index, float(self.close), float(self.position.qty), active))

    def before_terminate(self):
        EVENTS.append(('end', float(self.position.qty)))


closes = [100, 100, 104, 108, 112, 111, 109, 107, 105, 103]
cfg = {'starting_balance': 10_000, 'fee': 0, 'type': 'futures', 'futures_leverage': 2,
       'futures_leverage_mode': 'cross', 'exchange': EX, 'warm_up_candles': 0}
research.backtest(cfg, [{'exchange': EX, 'strategy': HalfThenLiquidate, 'symbol': SYM, 'timeframe': '1m'}], [],
                  {jh.key(EX, SYM): {'exchange': EX, 'symbol': SYM, 'candles': candles(closes)}})

for e in EVENTS:
    print(e)
print('orders submitted to the exchange, in order:')
for s in SUBMITTED:
    print('   ', s)

i = [k for k, e in enumerate(EVENTS) if e[0] == 'before liquidate'][0]
qty_when_liquidating, price_when_liquidating = EVENTS[i][1], EVENTS[i][2]
# orders submitted after the take-profit: the property demands a reduce-only MARKET sell of 0.5 (price within 0.015%)
tp_index = SUBMITTED.index(('LIMIT', 'sell', 0.5, 110.0, True))
after_tp = SUBMITTED[tp_index + 1:]
# (the last submission is the forced close at the end of the session, when the position is still open)
qty_at_end = [e for e in EVENTS if e[0] == 'end'][0][1]
steps_after = [e for e in EVENTS[i:] if e[0] == 'step']

print()
print(f'liquidate() was called in on_reduced_position with position.qty={qty_when_liquidating}, '
      f'price={price_when_liquidating}: it declared take_profit=({qty_when_liquidating}, {price_when_liquidating}).')
print('REQUIRED by C10: a reduce-only MARKET sell of 0.5 is submitted (price equals the current price) and the '
      'position is closed at the following strategy step.')
print(f'OBSERVED: position.qty at the {len(steps_after)} following strategy steps: {[e[3] for e in steps_after]}, '
      f'position.qty when the session ends: {qty_at_end}; orders submitted after the take-profit: {after_tp}')

closing_orders_before_end = [s for s in after_tp if s[0] == 'MARKET' and s[1] == 'sell'][:-1] if qty_at_end else after_tp
if qty_at_end != 0 and all(e[3] == 0.5 for e in steps_after) and not closing_orders_before_end:
    print('FAIL: liquidate() in on_reduced_position submitted no order because the new declaration equals the '
          'already-executed take-profit (0.5, 110); the position stayed open until the end of the session')
    sys.exit(1)
print('OK: the position was liquidated')
