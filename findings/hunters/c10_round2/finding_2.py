"""C10 finding 2 (same root cause as finding 1, other symptom): liquidate() in on_reduced_position aborts the
session with InvalidStrategy('stop-loss and take-profit should not be exactly the same') although the strategy
never declared a take-profit.

Strategy: long 1 @ 100. At 120 it trails a stop IN PROFIT for half of the position: stop_loss = (0.5, 110).
When that stop fills at 110 (position 0.5, pnl > 0), on_reduced_position calls self.liquidate().
liquidate() picks take_profit (because pnl > 0) and sets take_profit = (0.5, 110) - identical to the
already-executed stop_loss declaration that is still kept in self.stop_loss - so the final validation of
_detect_and_handle_entry_and_exit_modifications() raises.
"""
import warnings
warnings.filterwarnings('ignore')
import sys
import numpy as np
import jesse.helpers as jh
from jesse.strategies import Strategy
from jesse import research
from jesse.store import store

EX, SYM = 'Binance Perpetual Futures', 'BTC-USDT'
EVENTS = []


def candles(closes):
    ts = 1609459200000
    out, prev = [], closes[0]
    for i, c in enumerate(closes):
        out.append([ts + i * 60000, prev, c, max(prev, c), min(prev, c), 10])
        prev = c
    return np.array(out, dtype=float)


class TrailHalfThenLiquidate(Strategy):
    def should_long(self):
        return self.index == 0

    def go_long(self):
        self.buy = 1, self.price                      # market entry of 1 @ 100

    def update_position(self):
        if self.price >= 120 and self.reduced_count == 0 and self.stop_loss is None:
            self.stop_loss = 0.5, 110                 # protect half of the position, in profit
            EVENTS.append(f'update_position: price={self.price}: stop_loss = (0.5, 110)')

    def on_reduced_position(self, order):
        EVENTS.append(f'on_reduced_position: position.qty={self.position.qty} price={self.price} '
                      f'pnl={self.position.pnl}; take_profit declared by the strategy so far: {self.take_profit}; '
                      f'calling liquidate()')
        self.liquidate()

    def after(self):
        active = [(o.type, o.side, o.qty, o.price, o.submitted_via) for o in
                  store.orders.get_active_orders(self.exchange, self.symbol) if o.is_active]
        EVENTS.append(f'step {self.index}: close={self.close} position.qty={self.position.qty} active={active}')


closes = [100, 100, 110, 120, 115, 108, 105, 103]
cfg = {'starting_balance': 10_000, 'fee': 0, 'type': 'futures', 'futures_leverage': 2,
       'futures_leverage_mode': 'cross', 'exchange': EX, 'warm_up_candles': 0}
error = None
try:
    research.backtest(cfg, [{'exchange': EX, 'strategy': TrailHalfThenLiquidate, 'symbol': SYM, 'timeframe': '1m'}],
                      [], {jh.key(EX, SYM): {'exchange': EX, 'symbol': SYM, 'candles': candles(closes)}})
except Exception as e:
    error = e

for e in EVENTS:
    print(e)
print()
print('REQUIRED by C10: liquidate() in on_reduced_position asks for an exit of (position.qty, current price); a '
      'reduce-only MARKET order of 0.5 is submitted, it closes the position at the next strategy step and the '
      'backtest goes on. The strategy declared only ONE exit list (stop_loss), so the "stop-loss and take-profit '
      'should not be the same" validation does not apply.')
print(f'OBSERVED: {type(error).__name__ if error else "no exception"}: {error}')
if error is not None and 'should not be exactly the same' in str(error):
    print('FAIL: liquidate() after a filled partial stop-loss in profit raises InvalidStrategy (its take_profit '
          'equals the already-executed stop_loss declaration) and aborts the backtest')
    sys.exit(1)
print('OK')
