"""
C20 - candle store: "a candle with a new timestamp is appended, one with the timestamp of a
stored candle replaces it", for every sequence of new / repeated / OLDER candles.

store.candles.add_candle() honours this for an older candle (it walks back and replaces it).
store.candles.add_multiple_1m_candles() - the bulk entry point of the fast simulator - does not:
a gapless chunk whose timestamps are ALL stored already, but which ends before the last stored
candle, is rejected with IndexError("Could not find the candle with timestamp ... in the storage")
although that candle is in the storage. Only chunks that reach (or pass) the last stored candle
are handled by the repaired overlap branch.

Run:  cd /tmp/wt/tc20 && PYTHONPATH=/tmp/wt/tc20 /venv/bin/python /tmp/wt/tc20.out/finding_1.py
"""
import sys
import numpy as np

from jesse.config import config, reset_config
from jesse.store import store

EX, SYM = 'Sandbox', 'BTC-USD'
T0 = 1609459200000  # 2021-01-01T00:00:00Z


def set_up():
    reset_config()
    from jesse.routes import router
    router.set_routes([{'exchange': EX, 'symbol': SYM, 'timeframe': '1m', 'strategy': object}])
    config['app']['considering_timeframes'] = ['1m']
    config['app']['considering_symbols'] = [SYM]
    config['app']['considering_exchanges'] = [EX]
    config['app']['trading_mode'] = 'backtest'
    store.reset(True)
    store.candles.init_storage()


def chunk(first_minute, last_minute, price):
    """gapless 1m candles for the minutes first_minute..last_minute (inclusive), all at `price`"""
    return np.array([[T0 + m * 60_000, price, price, price, price, 1.0]
                     for m in range(first_minute, last_minute + 1)], dtype=float)


def minutes_and_prices():
    c = store.candles.get_candles(EX, SYM, '1m')
    return [(int((r[0] - T0) // 60_000), r[2]) for r in c]


failures = []

# --- reference behaviour: add_candle replaces an older stored candle --------------------------
set_up()
store.candles.add_multiple_1m_candles(chunk(0, 5, 100.0), EX, SYM)
store.candles.add_candle(chunk(4, 4, 200.0)[0], EX, SYM, '1m', with_execution=False, with_generation=False)
print('add_candle(older candle of minute 4)            ->', minutes_and_prices())
assert minutes_and_prices() == [(0, 100.0), (1, 100.0), (2, 100.0), (3, 100.0), (4, 200.0), (5, 100.0)]

# --- the same update(s) through add_multiple_1m_candles -----------------------------------------
cases = [
    ('one older stored candle (minute 4)', 4, 4),
    ('two older stored candles (minutes 2..3)', 2, 3),
    ('the first stored candles (minutes 0..2)', 0, 2),
]
for name, a, b in cases:
    set_up()
    store.candles.add_multiple_1m_candles(chunk(0, 5, 100.0), EX, SYM)   # minutes 0..5 are stored
    expected = [(m, 200.0 if a <= m <= b else 100.0) for m in range(6)]
    try:
        store.candles.add_multiple_1m_candles(chunk(a, b, 200.0), EX, SYM)
        got = minutes_and_prices()
        print(f'add_multiple_1m_candles({name}) -> {got}')
        if got != expected:
            failures.append(f'{name}: stored {got}, expected {expected}')
    except Exception as e:
        print(f'add_multiple_1m_candles({name}) -> raised {type(e).__name__}: {e}')
        print(f'    stored series is still {minutes_and_prices()}')
        print(f'    property requires        {expected}  (stored timestamps are replaced)')
        failures.append(f'{name}: {type(e).__name__}')

# --- control: a chunk that reaches the last stored candle is accepted ---------------------------
set_up()
store.candles.add_multiple_1m_candles(chunk(0, 5, 100.0), EX, SYM)
store.candles.add_multiple_1m_candles(chunk(4, 5, 200.0), EX, SYM)
print('control, chunk of minutes 4..5 (reaches the end) ->', minutes_and_prices())

if failures:
    print()
    print('The property: every candle whose timestamp is already stored replaces the stored one,')
    print('for any sequence of new / repeated / older candles added to the store.')
    print('FAIL: add_multiple_1m_candles raises IndexError ("could not find the candle ... in the storage") for a '
          'gapless chunk of older candles that are all stored, instead of replacing them as add_candle does.')
    sys.exit(1)
print('OK: no violation observed')
