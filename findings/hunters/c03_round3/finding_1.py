"""
C03 - fast simulator: available margin / unrealised PnL of one symbol are computed from a price that
lies in the future of the fill that is being processed for another symbol sharing the wallet.

Two routes (BTC-USDT and ETH-USDT, both 15m) share one futures wallet (1000 USDT, 1x, no fee).
  minute 14: BTC goes long 5 @ 100 (margin 500); ETH rests a LIMIT buy 1 @ 95 (margin 95).
  minute 17: ETH trades at 95 -> the limit fills. on_open_position submits a second (non reduce-only)
             LIMIT buy 3 @ 90 which needs 270 of margin.
  BTC trades at exactly 100 up to and including minute 26 and only then falls to 40 (minute 29).
At minute 17 the reference account has: wallet 1000, BTC margin 500 with unrealised PnL 0, ETH margin 95
-> available margin 405, so the 270 order must be accepted. The normal simulator does exactly that.
The fast simulator processes the whole 15-minute chunk of BTC before it starts the chunk of ETH, so while
the ETH fill of minute 17 is handled the BTC position is already priced at 40 (its price 12 minutes later):
unrealised PnL -300, available margin 105, and the order is rejected with InsufficientMargin.
"""
import sys
import numpy as np
import jesse.helpers as jh
from jesse import research
from jesse.strategies import Strategy
from jesse.services import selectors
from jesse.store import store
from jesse.exceptions import InsufficientMargin

EX = 'Binance Perpetual Futures'
T0 = 1609459200000


def candles(closes):
    arr, prev = [], closes[0]
    for i, c in enumerate(closes):
        arr.append([T0 + i * 60_000, prev, c, max(prev, c), min(prev, c), 10])
        prev = c
    return np.array(arr, dtype=float)


btc = [100.0] * 27 + [70.0, 50.0, 40.0] + [40.0] * 15
eth = [100.0] * 17 + [95.0, 100.0] + [100.0] * 26
OBS = {}


class TwoSymbols(Strategy):
    def should_long(self):
        return self.index == 0

    def go_long(self):
        if self.symbol == 'BTC-USDT':
            self.buy = 5, self.price          # MARKET
        else:
            self.buy = 1, 95                  # LIMIT, rests

    def should_cancel_entry(self):
        return False

    def on_open_position(self, order):
        if self.symbol != 'ETH-USDT':
            return
        ex = selectors.get_exchange(self.exchange)
        b = selectors.get_position(self.exchange, 'BTC-USDT')
        minute = int((store.app.time - T0) / 60_000) - 1
        OBS['minute'] = minute
        OBS['btc_price_seen'] = b.current_price
        OBS['btc_pnl_seen'] = b.pnl
        OBS['available_margin'] = ex.available_margin
        OBS['wallet'] = ex.wallet_balance
        try:
            self.broker.buy_at(3, 90)         # needs 3 * 90 / 1 = 270
            OBS['second_order'] = 'accepted'
        except InsufficientMargin as e:
            OBS['second_order'] = 'REJECTED: ' + str(e)[:70]


def run(fast):
    OBS.clear()
    cfg = {'starting_balance': 1000, 'fee': 0, 'type': 'futures', 'futures_leverage': 1,
           'futures_leverage_mode': 'cross', 'exchange': EX, 'warm_up_candles': 0}
    cs = {jh.key(EX, 'BTC-USDT'): {'exchange': EX, 'symbol': 'BTC-USDT', 'candles': candles(btc)},
          jh.key(EX, 'ETH-USDT'): {'exchange': EX, 'symbol': 'ETH-USDT', 'candles': candles(eth)}}
    routes = [{'exchange': EX, 'symbol': 'BTC-USDT', 'timeframe': '15m', 'strategy': TwoSymbols},
              {'exchange': EX, 'symbol': 'ETH-USDT', 'timeframe': '15m', 'strategy': TwoSymbols}]
    research.backtest(cfg, routes, [], cs, fast_mode=fast)
    return dict(OBS)


normal, fast = run(False), run(True)
m = fast['minute']
print('BTC closes of minutes 14..%d (everything BTC has traded at when ETH fills): %s' % (m, sorted(set(btc[14:m + 1]))))
print('reference at the ETH fill: wallet 1000 - BTC margin 500 + BTC uPnL 0 - ETH margin 95 = 405 -> order of 270 accepted')
for name, o in (('normal simulator', normal), ('fast simulator  ', fast)):
    print(f"{name}: ETH fill in minute {o['minute']}: BTC priced at {o['btc_price_seen']}, BTC uPnL {o['btc_pnl_seen']}, "
          f"wallet {o['wallet']}, available margin {o['available_margin']}, second order {o['second_order']}")

ok = abs(fast['available_margin'] - 405) < 1e-9 and fast['second_order'] == 'accepted'
if not ok:
    print('FAIL: in fast mode the unrealised PnL / available margin at an ETH fill use a BTC price from later in the '
          'chunk (40 instead of 100), so an order the reference account accepts is rejected with InsufficientMargin')
    sys.exit(1)
print('OK')
