"""
C03 - margin stays reserved for an order that no longer rests anywhere (it cannot fill and cannot be cancelled).

One route, BTC-USDT 1m, futures wallet 1000 USDT, 1x, no fee.
  candle 1: go_long rests a LIMIT buy 1 @ 90 (margin 90)
  candle 2: should_cancel_entry() -> the strategy layer cancels the entry (margin back to 1000) and calls the
            on_cancel() hook, in which the strategy re-arms a new LIMIT buy 2 @ 80 through self.broker (margin 160).
Strategy._execute_cancel() clears store.orders.storage *after* on_cancel(), and the next _check() sees "no entry
orders" and calls _reset() -> reset_trade_orders(), which throws the still ACTIVE order out of the order store
without cancelling it. From then on the order book has no resting order (self.orders == [], no active orders,
broker.cancel_all_orders() finds nothing, the price trading down to 75 does not fill the 80 bid), the position is
flat - but FuturesExchange.buy_orders still holds [2, 80] and available_margin stays 840 instead of 1000 for the
rest of the session. A reference account fed the resting orders of the order book (none) has 1000 available;
one fed "submitted and never cancelled" would have had to fill the bid at 80. Either way the states differ.
"""
import sys
import numpy as np
import jesse.helpers as jh
from jesse import research
from jesse.strategies import Strategy
from jesse.services import selectors
from jesse.store import store

EX = 'Binance Perpetual Futures'
T0 = 1609459200000


def candles(closes):
    arr, prev = [], closes[0]
    for i, c in enumerate(closes):
        arr.append([T0 + i * 60_000, prev, c, max(prev, c), min(prev, c), 10])
        prev = c
    return np.array(arr, dtype=float)


ROWS = []


class ReArmInOnCancel(Strategy):
    rearmed = None

    def should_long(self):
        return self.index == 1

    def go_long(self):
        self.buy = 1, 90

    def should_cancel_entry(self):
        return True

    def on_cancel(self):
        if self.rearmed is None:
            self.rearmed = self.broker.buy_at(2, 80)

    def before(self):
        if self.index == 9:
            # try to get the margin back the official way
            self.broker.cancel_all_orders()
        ex = selectors.get_exchange(self.exchange)
        ROWS.append(dict(
            i=self.index, low=self.low, pos=self.position.qty,
            book=[(o.qty, o.price) for o in store.orders.get_active_orders(self.exchange, self.symbol) if o.is_active],
            strategy_orders=len(self.orders),
            ledger=ex.buy_orders['BTC'][:].tolist(),
            rearmed=self.rearmed.status if self.rearmed else None,
            avail=ex.available_margin, wallet=ex.wallet_balance))


bad = []
for fast in (False, True):
    ROWS.clear()
    cfg = {'starting_balance': 1000, 'fee': 0, 'type': 'futures', 'futures_leverage': 1,
           'futures_leverage_mode': 'cross', 'exchange': EX, 'warm_up_candles': 0}
    prices = [100.0] * 6 + [75.0] * 2 + [100.0] * 4
    research.backtest(cfg, [{'exchange': EX, 'symbol': 'BTC-USDT', 'timeframe': '1m', 'strategy': ReArmInOnCancel}], [],
                      {jh.key(EX, 'BTC-USDT'): {'exchange': EX, 'symbol': 'BTC-USDT', 'candles': candles(prices)}},
                      fast_mode=fast)
    print(f'--- fast_mode={fast}')
    for r in ROWS:
        # reference: flat position, wallet 1000, margin reserved only for the orders resting in the order book
        ref = r['wallet'] - sum(abs(q) * p for q, p in r['book'])
        flag = '' if abs(ref - r['avail']) < 1e-9 else '   <-- differs'
        print(f"candle {r['i']:2d} low {r['low']:5.1f} pos {r['pos']} order book {r['book']} self.orders {r['strategy_orders']} "
              f"exchange ledger {r['ledger']} re-armed order status {r['rearmed']} | available {r['avail']} reference {ref}{flag}")
        if flag:
            bad.append((fast, r['i']))

if bad:
    print('FAIL: an order submitted in on_cancel() is dropped from the order store without being cancelled; it can no '
          'longer fill or be cancelled, yet its margin (160) stays subtracted from the available margin for good')
    sys.exit(1)
print('OK')
