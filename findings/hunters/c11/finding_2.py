"""C11 finding 2: the per-exchange configuration of an earlier session (balance, fee, leverage, type)
survives in config['env']['exchanges'][<name>] because reset_config() restores nothing (it makes a
SHALLOW copy of backup_config, whose 'env'/'app' dicts are the very dicts that set_config mutates).
research.backtest does not check that config['exchange'] equals the exchange of the routes (see the
TODO in _isolated_backtest), so a probe whose routes name an exchange that config['exchange'] does not
cover gets jesse's defaults for it in a fresh process, but the LEFT-OVER values of the earlier session
when one ran before: same arguments, different metrics.

Run: cd /tmp/wt/hc11 && PYTHONPATH=/tmp/wt/hc11 /venv/bin/python finding_2.py
"""
import os, sys, json, subprocess, tempfile, warnings
warnings.filterwarnings('ignore')


def child(with_history: bool):
    import numpy as np
    import jesse.helpers as jh
    from jesse import research
    from jesse.strategies import Strategy

    class S(Strategy):
        def should_long(self): return self.index % 7 == 1
        def should_cancel_entry(self): return False
        def go_long(self): self.buy = (self.balance * 0.5) / self.price, self.price
        def update_position(self):
            if self.index % 7 == 5: self.liquidate()

    sym = 'BTC-USDT'
    arr = np.array([[1609459200000 + i * 60000, 100 + (i * 3) % 11, 100 + ((i + 1) * 3) % 11, 112, 99, 10]
                    for i in range(60)], dtype=float)

    def call(cfg_exchange, route_exchange, balance, fee, leverage):
        cfg = {'starting_balance': balance, 'fee': fee, 'type': 'futures', 'futures_leverage': leverage,
               'futures_leverage_mode': 'cross', 'exchange': cfg_exchange, 'warm_up_candles': 0}
        routes = [{'exchange': route_exchange, 'strategy': S, 'symbol': sym, 'timeframe': '1m'}]
        candles = {jh.key(route_exchange, sym): {'exchange': route_exchange, 'symbol': sym, 'candles': arr.copy()}}
        return research.backtest(cfg, routes, [], candles)['metrics']

    if with_history:
        # an ordinary earlier session on Bybit: small account, high fee, 10x
        call('Bybit USDT Perpetual', 'Bybit USDT Perpetual', 1_000, 0.004, 10)
    # the probe: config written for Binance, routes (and candles) on Bybit
    m = call('Binance Perpetual Futures', 'Bybit USDT Perpetual', 10_000, 0.001, 2)
    print('@@' + json.dumps({k: m[k] for k in ('total', 'starting_balance', 'finishing_balance', 'fee', 'net_profit')}))


def run(arg):
    pr = subprocess.run([sys.executable, os.path.abspath(__file__), arg], cwd=tempfile.mkdtemp(prefix='c11f2_'),
                        capture_output=True, text=True, env=dict(os.environ, PYTHONHASHSEED='0'))
    line = [l for l in pr.stdout.splitlines() if l.startswith('@@')]
    if not line:
        print(pr.stderr[-2000:]); sys.exit(2)
    return json.loads(line[0][2:])


if __name__ == '__main__':
    if len(sys.argv) > 1:
        child(sys.argv[1] == 'history'); sys.exit(0)
    import jesse
    print('jesse from', jesse.__file__)
    fresh, after = run('fresh'), run('history')
    print('probe in a fresh process                              :', fresh)
    print('same probe after a session on "Bybit USDT Perpetual"   :', after)
    print('property requires: equal results for equal arguments, whatever exchange/leverage/fee/balance ran before')
    if fresh != after:
        print('FAIL: the balance, fee and leverage that an earlier session configured for an exchange name are never '
              'reset, and a later identical call whose routes use that exchange returns different metrics than in a '
              'fresh process')
        sys.exit(1)
    print('no difference observed')
