"""C11 finding 3: the result of research.backtest depends on Python's per-process string-hash seed.
store.install_routes() builds config['app']['trading_symbols'], ['considering_candles'], ... as
tuple(set_of_strings); their order follows the string hashes, which CPython randomises per process
(PYTHONHASHSEED).  PositionsState is filled in that order and save_daily_portfolio_balance() adds the
open positions' PNL in that order, so the daily balances (equity curve, max_drawdown, sharpe, calmar,
sortino, omega ...) differ in the last bits from one fresh process to the next.  simulator() also takes
the session length from considering_candles[0], so when a data route's candle array is a few minutes
longer than the trading one the same call returns metrics under one seed and raises IndexError under another.

Run: cd /tmp/wt/hc11 && PYTHONPATH=/tmp/wt/hc11 /venv/bin/python finding_3.py
"""
import os, sys, json, subprocess, tempfile, warnings
warnings.filterwarnings('ignore')
EX = 'Binance Perpetual Futures'


def candles(seed, n, start):
    import numpy as np
    rng = np.random.RandomState(seed)
    arr, p = np.zeros((n, 6)), start
    for i in range(n):
        o = p
        c = max(1.0, o * (1 + rng.normal(0, 0.01)))
        h = max(o, c) * (1 + abs(rng.normal(0, 0.005)))
        l = min(o, c) * (1 - abs(rng.normal(0, 0.005)))
        arr[i] = [1609459200000 + i * 60000, o, c, h, l, rng.randint(1, 100)]
        p = c
    return arr


def child(case):
    import jesse.helpers as jh
    from jesse import research
    from jesse.strategies import Strategy

    def mk(frac):
        class Hold(Strategy):       # opens one long at the 2nd candle and holds it to the end
            def should_long(self): return self.index == 1
            def should_cancel_entry(self): return False
            def go_long(self): self.buy = round(self.available_margin * frac / self.price, 4), self.price
        return Hold

    cfg = {'starting_balance': 10_000, 'fee': 0.0004, 'type': 'futures', 'futures_leverage': 5,
           'futures_leverage_mode': 'cross', 'exchange': EX, 'warm_up_candles': 0}
    if case == 'A':     # three routes, equally long candle arrays, ~49 hours
        syms = [('BTC-USDT', 0.313), ('ETH-USDT', 0.277), ('SOL-USDT', 0.191)]
        routes = [{'exchange': EX, 'strategy': mk(f), 'symbol': s, 'timeframe': '1m'} for s, f in syms]
        data_routes = []
        cs = {jh.key(EX, s): {'exchange': EX, 'symbol': s, 'candles': candles(5 + 101 * i, 2950, 100 + 10 * i)}
              for i, (s, f) in enumerate(syms)}
    else:               # one route + a data route whose array has 5 more minutes
        routes = [{'exchange': EX, 'strategy': mk(0.3), 'symbol': 'BTC-USDT', 'timeframe': '1m'}]
        data_routes = [{'exchange': EX, 'symbol': 'ETH-USDT', 'timeframe': '5m'}]
        cs = {jh.key(EX, 'BTC-USDT'): {'exchange': EX, 'symbol': 'BTC-USDT', 'candles': candles(1, 60, 100)},
              jh.key(EX, 'ETH-USDT'): {'exchange': EX, 'symbol': 'ETH-USDT', 'candles': candles(2, 65, 50)}}
    try:
        r = research.backtest(cfg, routes, data_routes, cs, generate_equity_curve=True, fast_mode=(case == 'A'))
        m = r['metrics']
        out = {'outcome': 'returned', 'max_drawdown': m.get('max_drawdown'), 'sortino': m.get('sortino_ratio'), 'calmar': m.get('calmar_ratio'),
               'equity': [d['value'] for d in r['equity_curve'][0]['data']] if r.get('equity_curve') else None}
    except Exception as e:
        out = {'outcome': 'raised ' + type(e).__name__}
    print('@@' + json.dumps(out))


def run(case, hashseed):
    pr = subprocess.run([sys.executable, os.path.abspath(__file__), case], cwd=tempfile.mkdtemp(prefix='c11f3_'),
                        capture_output=True, text=True, env=dict(os.environ, PYTHONHASHSEED=str(hashseed)))
    line = [l for l in pr.stdout.splitlines() if l.startswith('@@')]
    if not line:
        print(pr.stderr[-2000:]); sys.exit(2)
    return json.loads(line[0][2:])


if __name__ == '__main__':
    if len(sys.argv) > 1:
        child(sys.argv[1]); sys.exit(0)
    import jesse
    print('jesse from', jesse.__file__)
    bad = False
    for case, seeds in (('A', (0, 1)), ('B', (0, 3))):
        res = [run(case, s) for s in seeds]
        for s, r in zip(seeds, res):
            print(f'case {case}, fresh process with PYTHONHASHSEED={s}:', r)
        bad |= res[0] != res[1]
    print('property requires: the same call gives equal results in every fresh process (the seeds are fixed here only '
          'to make this script deterministic; by default CPython draws a new one for each process)')
    if bad:
        print('FAIL: research.backtest iterates over sets of exchange/symbol strings, so equal arguments give different '
              'daily balances/ratios (and, with unequal candle lengths, a result or an IndexError) from one fresh '
              'process to another')
        sys.exit(1)
    print('no difference observed')
