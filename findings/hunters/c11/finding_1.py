"""C11 finding 1: a session run with generate_logs=True leaves config['app']['debug_mode'] = True
behind (reset_config() only makes a shallow copy, so nothing under 'app'/'env' is ever restored).
A later, otherwise identical probe call then behaves differently from the same call in a fresh
process: a strategy that uses the documented self.log(msg, 'error') makes the probe raise
AttributeError instead of returning its metrics.

Run: cd /tmp/wt/hc11 && PYTHONPATH=/tmp/wt/hc11 /venv/bin/python finding_1.py
"""
import os, sys, json, subprocess, tempfile, warnings
warnings.filterwarnings('ignore')


def child(with_history: bool):
    import numpy as np
    import jesse.helpers as jh
    from jesse import research
    from jesse.strategies import Strategy

    class Quiet(Strategy):
        def should_long(self): return self.index == 2
        def should_cancel_entry(self): return False
        def go_long(self): self.buy = 1, self.price
        def update_position(self):
            if self.index == 6: self.liquidate()

    class LogsAnError(Quiet):
        def before(self):
            if self.index == 4:
                self.log('something looks odd', 'error')     # documented strategy API

    ex, sym = 'Binance Perpetual Futures', 'BTC-USDT'
    closes = [100 + (i % 7) for i in range(30)]
    arr = np.array([[1609459200000 + i * 60000, c, c + 0.5, c + 1, c - 1, 10] for i, c in enumerate(closes)], dtype=float)
    cfg = {'starting_balance': 10_000, 'fee': 0.001, 'type': 'futures', 'futures_leverage': 2,
           'futures_leverage_mode': 'cross', 'exchange': ex, 'warm_up_candles': 0}

    def call(strategy, **kw):
        routes = [{'exchange': ex, 'strategy': strategy, 'symbol': sym, 'timeframe': '1m'}]
        candles = {jh.key(ex, sym): {'exchange': ex, 'symbol': sym, 'candles': arr.copy()}}
        return research.backtest(cfg, routes, [], candles, **kw)

    import jesse.config
    if with_history:
        call(Quiet, generate_logs=True)          # an earlier, successful session
    try:
        m = call(LogsAnError)['metrics']          # the probe (generate_logs=False)
        out = {'outcome': 'returned', 'total': m['total'], 'net_profit': m.get('net_profit')}
    except Exception as e:
        out = {'outcome': 'raised', 'exc': f'{type(e).__name__}: {e}'}
    out['debug_mode_after'] = jesse.config.config['app']['debug_mode']
    print('@@' + json.dumps(out))


def run(arg):
    tmp = tempfile.mkdtemp(prefix='c11f1_')     # the log files of generate_logs go to ./storage/logs
    pr = subprocess.run([sys.executable, os.path.abspath(__file__), arg], cwd=tmp, capture_output=True, text=True,
                        env=dict(os.environ, PYTHONHASHSEED='0'))
    line = [l for l in pr.stdout.splitlines() if l.startswith('@@')]
    if not line:
        print(pr.stderr[-2000:]); sys.exit(2)
    return json.loads(line[0][2:])


if __name__ == '__main__':
    if len(sys.argv) > 1:
        child(sys.argv[1] == 'history'); sys.exit(0)
    import jesse
    print('jesse from', jesse.__file__)
    fresh = run('fresh')
    after = run('history')
    print('probe in a fresh process                          :', fresh)
    print('same probe after a generate_logs=True session     :', after)
    print('property requires: identical outcome of the probe, whatever sessions ran before')
    if fresh != after:
        print('FAIL: after an earlier research.backtest(generate_logs=True) session debug_mode stays True, and an '
              'identical later call (strategy uses self.log(..., "error")) raises AttributeError instead of '
              'returning the metrics it returns in a fresh process')
        sys.exit(1)
    print('no difference observed')
