"""
C15 finding 1: adxr() is not the textbook ADXR and is inconsistent with jesse's own adx().

Textbook (Wilder): ADX is the Wilder-smoothed DX,  ADX[t] = (ADX[t-1]*(n-1) + DX[t]) / n,
and ADXR[t] = (ADX[t] + ADX[t-n]) / 2 (TA-Lib uses the lag n-1).
jesse.indicators.adxr builds its internal "ADX" as a plain SIMPLE moving average of DX,
so the result differs from the definition permanently (not a start-up/seed effect).

Run:  cd /tmp/wt/gc15 && PYTHONPATH=/tmp/wt/gc15 /venv/bin/python finding_1.py
"""
import sys, warnings
warnings.filterwarnings('ignore')
import numpy as np
import jesse.indicators as ta


def candles(n, seed):
    r = np.random.RandomState(seed)
    c = 100 * np.exp(np.cumsum(r.normal(0, 0.01, n)))
    o = np.roll(c, 1); o[0] = c[0]
    h = np.maximum(o, c) * (1 + r.uniform(0, 0.005, n))
    l = np.minimum(o, c) * (1 - r.uniform(0, 0.005, n))
    t = 1600000000000 + np.arange(n) * 60000
    return np.column_stack([t, o, c, h, l, r.uniform(1, 100, n)])


def textbook(c, p):
    """independent Wilder DX / ADX / ADXR"""
    h, l, cl = c[:, 3], c[:, 4], c[:, 2]
    n = len(c)
    tr = np.zeros(n); pdm = np.zeros(n); mdm = np.zeros(n)
    for i in range(1, n):
        tr[i] = max(h[i] - l[i], abs(h[i] - cl[i - 1]), abs(l[i] - cl[i - 1]))
        up, dn = h[i] - h[i - 1], l[i - 1] - l[i]
        pdm[i] = up if (up > dn and up > 0) else 0.0
        mdm[i] = dn if (dn > up and dn > 0) else 0.0

    def wsum(x):
        s = np.full(n, np.nan); s[p] = x[1:p + 1].sum()
        for i in range(p + 1, n):
            s[i] = s[i - 1] - s[i - 1] / p + x[i]
        return s
    st, sp, sm = wsum(tr), wsum(pdm), wsum(mdm)
    pdi, mdi = 100 * sp / st, 100 * sm / st
    dx = 100 * np.abs(pdi - mdi) / (pdi + mdi)
    adx = np.full(n, np.nan)
    adx[2 * p - 1] = dx[p:2 * p].mean()
    for i in range(2 * p, n):
        adx[i] = (adx[i - 1] * (p - 1) + dx[i]) / p
    adxr_n = np.full(n, np.nan); adxr_n[p:] = (adx[p:] + adx[:-p]) / 2           # Wilder lag n
    adxr_n1 = np.full(n, np.nan); adxr_n1[p - 1:] = (adx[p - 1:] + adx[:n - p + 1]) / 2  # TA-Lib lag n-1
    sma_dx = np.full(n, np.nan)
    for i in range(2 * p - 1, n):
        sma_dx[i] = dx[i - p + 1:i + 1].mean()
    adxr_sma = np.full(n, np.nan); adxr_sma[p:] = (sma_dx[p:] + sma_dx[:-p]) / 2
    return adx, adxr_n, adxr_n1, adxr_sma


fail = False
print("period | jesse adxr[-1] | textbook ADXR (lag n) | (lag n-1) | (jesse adx[t]+adx[t-n])/2 | max |diff| over last 300 bars")
for seed in (0, 1, 2):
    c = candles(1500, seed)            # 1500 bars: every start-up seed has decayed completely
    for p in (2, 5, 14, 30, 60):
        got = ta.adxr(c, p, sequential=True)
        own_adx = ta.adx(c, p, sequential=True)
        adx, ref_n, ref_n1, ref_sma = textbook(c, p)
        own = np.full(len(c), np.nan); own[p:] = (own_adx[p:] + own_adx[:-p]) / 2
        tail = slice(-300, None)
        # sanity: jesse's own adx() DOES agree with the textbook ADX once the seed has decayed
        assert np.nanmax(np.abs(own_adx[tail] - adx[tail])) < 1e-6
        d = min(np.nanmax(np.abs(got[tail] - ref_n[tail])), np.nanmax(np.abs(got[tail] - ref_n1[tail])))
        print(f"seed {seed} p={p:2d} | {got[-1]:8.3f} | {ref_n[-1]:8.3f} | {ref_n1[-1]:8.3f} | {own[-1]:8.3f} | {d:6.2f}"
              f"   (matches SMA-of-DX variant: {np.nanmax(np.abs(got[tail] - ref_sma[tail])) < 1e-6})")
        if d > 0.5:
            fail = True

print()
print("Property C15 requires the ADX family to agree with the textbook definition once the start-up seed")
print("has decayed. After 1200+ bars adx() does (diff < 1e-6), but adxr() is off by several points (up to >10)")
print("for every period, because it averages DX with a simple moving average instead of Wilder's smoothing.")
if fail:
    print("FAIL: adxr() uses SMA(DX) instead of the Wilder-smoothed ADX, so it permanently deviates from the textbook ADXR and from (adx[t]+adx[t-n])/2 of jesse's own adx()")
    sys.exit(1)
print("no violation observed")
