"""
C15 finding 3: off-by-one window in the power-weighted moving averages of the selector
  srwma (matype 34), sqwma (35), vpwma (36), cwma (37)   [epma (39) shares the loop].

A period-n square / cube / square-root / variable-power weighted moving average weights the last n bars
with n^k, (n-1)^k, ..., 1^k (newest first) - exactly like wma (k=1), which jesse implements correctly.
The *_fast loops run `for i in range(period - 1)`, i.e. over only period-1 bars (weights n^k .. 2^k):
  * the n-th bar of the window (weight 1^k) never enters the value,
  * with period=2 the "average" is the source itself,
  * vpwma(power=1) is not equal to wma for the same period.
(aside: the same loop makes epma / ma(matype=39) raise ZeroDivisionError for period=6 with the default offset.)

Run:  cd /tmp/wt/gc15 && PYTHONPATH=/tmp/wt/gc15 /venv/bin/python finding_3.py
"""
import sys, warnings
warnings.filterwarnings('ignore')
import numpy as np
import jesse.indicators as ta
from jesse.indicators.ma import ma

n = 200
r = np.random.RandomState(11)
x = 100 * np.exp(np.cumsum(r.normal(0, 0.01, n)))
ts = 1600000000000 + np.arange(n) * 60000
c = np.column_stack([ts, x, x, x * 1.001, x * 0.999, np.ones(n)])


def ref(x, period, power, bars):
    """weights period^k .. (period-bars+1)^k on the newest `bars` bars"""
    w = (period - np.arange(bars)) ** power          # newest first
    out = np.full(len(x), np.nan)
    for t in range(period + 1, len(x)):
        out[t] = (x[t - np.arange(bars)] * w).sum() / w.sum()
    return out


fail = False
print("indicator period | max|jesse - n-bar definition| | max|jesse - (n-1)-bar variant| | depends on bar t-n+1?")
for name, mt, power in (('srwma', 34, 0.5), ('sqwma', 35, 2.0), ('vpwma', 36, 0.382), ('cwma', 37, 3.0)):
    f = getattr(ta, name)
    for period in (2, 3, 5, 14, 60):
        got = ma(c, period, mt, 'close', True)
        assert np.array_equal(got, f(c, period, sequential=True), equal_nan=True)
        full = ref(x, period, power, period)
        short = ref(x, period, power, period - 1)
        m = ~np.isnan(full)
        d_full = np.max(np.abs(got[m] - full[m]))
        d_short = np.max(np.abs(got[m] - short[m]))
        # perturb the oldest bar of the window that ends at t=150
        c2 = c.copy(); c2[150 - period + 1, 2] += 50.0
        dep = ma(c2, period, mt, 'close', True)[150] != got[150]
        print(f"{name:6s} {period:3d} | {d_full:10.6f} | {d_short:10.2e} | {dep}")
        if d_full > 1e-9 and d_short < 1e-9 and not dep:
            fail = True

ident = all(np.allclose(getattr(ta, nm)(c, 2, sequential=True), x, rtol=1e-15, atol=0) for nm in ('srwma', 'sqwma', 'vpwma', 'cwma'))
print(f"\nperiod=2: srwma/sqwma/vpwma/cwma output == source itself: {ident}")
v1 = ta.vpwma(c, 10, 1.0, sequential=True); w = ta.wma(c, 10, sequential=True)
print(f"vpwma(period=10, power=1) vs wma(period=10): max diff {np.max(np.abs(v1[11:] - w[11:])):.4f} (should be 0: power 1 IS the linear WMA)")
try:
    ma(c, 6, 39, 'close', True); print("ma(period=6, matype=39) returned")
except ZeroDivisionError as e:
    print("aside: ma(candles, period=6, matype=39 [epma]) raises ZeroDivisionError:", e)

print("\nProperty C15: moving averages must agree exactly with the definition wherever the value is a function")
print("of a trailing window, for all periods 2..60 and every matype of the selector. These four use a window")
print("that is one bar too short (and degenerate to the raw price for period=2).")
if fail or ident:
    print("FAIL: srwma/sqwma/vpwma/cwma (matypes 34-37) average only period-1 bars: the loop `for i in range(period - 1)` drops the oldest bar of the window")
    sys.exit(1)
print("no violation observed")
