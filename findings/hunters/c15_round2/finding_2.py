"""
C15 finding 2: nma (matype 30 of the moving-average selector) returns a blend of two prices that are
period-1 and period bars OLD instead of the current and the previous price.

Definition (Jim Sloman's Natural Moving Average, as in the TradingView reference that jesse ported):
    ln    = log(src) * 1000
    oi_i  = |ln[t-i] - ln[t-i-1]|                      i = 0 .. period-1
    ratio = sum(oi_i * (sqrt(i+1) - sqrt(i))) / sum(oi_i)
    NMA   = src[t] * ratio + src[t-1] * (1 - ratio)
jesse/indicators/nma.py:nma_fast computes the blend AFTER the inner loop with the leaked loop variable
i == period-1:   newseries[j] = source[j - i] * ratio + source[j - i - 1] * (1 - ratio)
so the output is (a blend of) the price period-1 / period bars ago - a pure delay line, not an average
of the trailing window that ends at the current bar.

Run:  cd /tmp/wt/gc15 && PYTHONPATH=/tmp/wt/gc15 /venv/bin/python finding_2.py
"""
import sys, warnings
warnings.filterwarnings('ignore')
import numpy as np
import jesse.indicators as ta
from jesse.indicators.ma import ma


def ref_nma(x, period):
    ln = np.log(x) * 1000
    out = np.full(len(x), np.nan)
    w = np.sqrt(np.arange(period) + 1) - np.sqrt(np.arange(period))
    for t in range(period + 1, len(x)):
        oi = np.abs(ln[t - np.arange(period)] - ln[t - np.arange(period) - 1])
        ratio = (oi * w).sum() / oi.sum() if oi.sum() != 0 else 0.0
        out[t] = x[t] * ratio + x[t - 1] * (1 - ratio)
    return out


fail = False
n = 300
ts = 1600000000000 + np.arange(n) * 60000

# (a) monotone series: price rises by exactly 1.0 per bar
p = 100.0 + np.arange(n)
ramp = np.column_stack([ts, p, p, p + 0.5, p - 0.5, np.ones(n)])
print("(a) monotone ramp, +1 per bar, last price = %.1f" % p[-1])
print("period | ma(matype=30)[-1] | definition | lag of jesse's value behind the last price (bars)")
for period in (2, 5, 14, 40, 60):
    got = ma(ramp, period, 30, 'close', True)
    assert np.array_equal(got, ta.nma(ramp, period, sequential=True), equal_nan=True)
    ref = ref_nma(p, period)
    print(f"{period:6d} | {got[-1]:10.3f} | {ref[-1]:10.3f} | {p[-1] - got[-1]:6.2f}")
    # the definition is a blend of the last two prices -> it can never lag by more than 1 bar
    if not (p[-2] <= ref[-1] <= p[-1]):
        raise SystemExit("reference broken")
    if p[-1] - got[-1] > 1.0 + 1e-9:
        fail = True

# (b) random walk: compare against the definition, and show WHAT jesse returns instead
r = np.random.RandomState(7)
x = 100 * np.exp(np.cumsum(r.normal(0, 0.01, n)))
c = np.column_stack([ts, x, x, x * 1.001, x * 0.999, np.ones(n)])
print("\n(b) random walk, 300 bars")
print("period | max rel. error vs definition | jesse == (blend of src[t-period+1], src[t-period]) ?")
for period in (2, 5, 14, 40, 60):
    got = ta.nma(c, period, sequential=True)
    ref = ref_nma(x, period)
    m = ~np.isnan(ref)
    err = np.max(np.abs(got[m] - ref[m]) / ref[m])
    # the current price only enters through `ratio`; result always lies between two OLD prices
    lo = np.minimum(x[1:n - period + 1], x[:n - period])[1:]
    hi = np.maximum(x[1:n - period + 1], x[:n - period])[1:]
    between_old = np.all((got[period + 1:] >= lo - 1e-9) & (got[period + 1:] <= hi + 1e-9))
    print(f"{period:6d} | {err:10.4f} | {between_old}")
    if err > 1e-6:
        fail = True

# (c) the value is independent of a shock in the newest bars
c2 = c.copy(); c2[-1, 2] *= 1.5          # last close jumps by +50 %
a, b = ta.nma(c, 40), ta.nma(c2, 40)
print(f"\n(c) last close +50%: nma(40) moves from {a:.3f} to {b:.3f}  (definition moves from "
      f"{ref_nma(c[:, 2], 40)[-1]:.3f} to {ref_nma(c2[:, 2], 40)[-1]:.3f})")

print("\nProperty C15: every matype of the selector must agree with a straightforward implementation of its")
print("definition for all periods 2..60. nma() agrees for NO period: it outputs prices delayed by ~period bars.")
if fail:
    print("FAIL: nma / ma(matype=30) blends source[t-period+1] and source[t-period] (leaked loop variable) instead of source[t] and source[t-1], i.e. it is the price delayed by about `period` bars")
    sys.exit(1)
print("no violation observed")
