"""
C07 finding 3 (minor, contrived input) - a candle series that starts at the Unix epoch (timestamp 0, which is aligned
to every timeframe): CandlesState.add_candle() silently drops every candle whose timestamp is 0.
  * step simulator: the first 1m candle is never stored, so all index based windows are shifted by one minute:
    the strategy reads 5m candles that start at minute 1, aggregate only 4 minutes, and later two candles for one window;
  * fast simulator: the generated 5m candle with timestamp 0 is dropped too and the first strategy execution crashes.

Run:  cd /tmp/wt/gc07 && PYTHONPATH=/tmp/wt/gc07 /venv/bin/python /tmp/wt/gc07.out/finding_3.py
"""
import sys
import warnings
warnings.filterwarnings('ignore')
import numpy as np
import jesse.helpers as jh
from jesse import research
from jesse.strategies import Strategy

EX = 'Binance Perpetual Futures'
SYM = 'BTC-USDT'
N = 12
CANDLES = np.array([[i * 60000, 100 + i, 101 + i, 101 + i, 100 + i, 1] for i in range(N)], dtype=float)


def reference(upto):
    """aggregation of the (gap-free, so un-normalised) 1m candles 0..upto-1 into aligned 5m windows"""
    out = []
    for s in range(0, upto, 5):
        w = CANDLES[s:min(s + 5, upto)]
        out.append([w[0][0], w[0][1], w[-1][2], w[:, 3].max(), w[:, 4].min(), w[:, 5].sum()])
    return out


def run(fast_mode):
    log = []

    class S(Strategy):
        def should_long(self):
            return False

        def go_long(self):
            pass

        def should_cancel_entry(self):
            return False

        def before(self):
            minutes = int(self.time // 60000)
            log.append((minutes, len(self.get_candles(EX, SYM, '1m')), self.candles.tolist()))

    cfg = {'starting_balance': 100000, 'fee': 0, 'type': 'futures', 'futures_leverage': 1,
           'futures_leverage_mode': 'cross', 'exchange': EX, 'warm_up_candles': 0}
    err = None
    try:
        research.backtest(cfg, [{'exchange': EX, 'strategy': S, 'symbol': SYM, 'timeframe': '5m'}], [],
                          {jh.key(EX, SYM): {'exchange': EX, 'symbol': SYM, 'candles': CANDLES.copy()}}, fast_mode=fast_mode)
    except Exception as e:
        err = repr(e)
    return log, err


bad = []
for fast_mode in (False, True):
    name = 'fast' if fast_mode else 'step'
    log, err = run(fast_mode)
    for minutes, n1m, five in log:
        want = reference(minutes)
        ok = n1m == minutes and five == want
        print(f'{name} simulator, before() after {minutes} minutes: stored 1m candles = {n1m} (input: {minutes})')
        print(f'    self.candles (5m) = {five}')
        print(f'    required          = {want}   -> {"ok" if ok else "VIOLATION"}')
        if not ok:
            bad.append(name)
    if err:
        print(f'{name} simulator raised: {err}')
        bad.append(name)
    print()

if bad:
    print('FAIL: for a session that starts at timestamp 0 the first 1m candle is not stored (stored 1m candles != input) '
          'and the 5m candles start at minute 1, aggregate the wrong minutes and appear twice per window (step), '
          'or the simulation crashes at the first execution (fast)')
    sys.exit(1)
print('no violation observed')
