"""
C07 finding 2 - when two orders are filled inside the same one-minute candle, the partial candle that is stored for
the second fill starts at the FIRST fill's price: the forming candles of every timeframe that the strategy reads in
the second fill's hook have lost the first open (and the high/low reached before the first fill) of their window.

Run:  cd /tmp/wt/gc07 && PYTHONPATH=/tmp/wt/gc07 /venv/bin/python /tmp/wt/gc07.out/finding_2.py
"""
import sys
import warnings
warnings.filterwarnings('ignore')
import numpy as np
import jesse.helpers as jh
from jesse import research
from jesse.strategies import Strategy

EX = 'Binance Perpetual Futures'
SYM = 'BTC-USDT'
BASE = 1614816000000  # 2021-03-04T00:00:00Z, aligned to every timeframe

# minutes 0..9 flat at 100; minute 10 (FIRST minute of the 5m window 10..14): open 100, high 110, low 95, close 105
rows = [[BASE + i * 60000, 100, 100, 100, 100, 1] for i in range(10)]
rows.append([BASE + 10 * 60000, 100, 105, 110, 95, 7])
rows += [[BASE + i * 60000, 105, 105, 105, 105, 1] for i in range(11, 15)]
CANDLES = np.array(rows, dtype=float)


def run(fast_mode):
    log = []

    class S(Strategy):
        def should_long(self):
            return self.index == 1          # executed at the end of minute 9

        def go_long(self):
            self.buy = [(1, 97), (1, 96)]   # two limit orders, both are reached inside minute 10

        def should_cancel_entry(self):
            return False

        def _snap(self, tag):
            log.append((tag, self.get_candles(EX, SYM, '1m')[-1].tolist(), self.candles[-1].tolist(),
                        self.current_candle.tolist()))

        def on_open_position(self, order):
            self._snap(f'1st fill @ {order.price}')

        def on_increased_position(self, order):
            self._snap(f'2nd fill @ {order.price}')

        def before(self):
            if self.index == 2:
                self._snap('next execution (window complete)')

    cfg = {'starting_balance': 100000, 'fee': 0, 'type': 'futures', 'futures_leverage': 1,
           'futures_leverage_mode': 'cross', 'exchange': EX, 'warm_up_candles': 0}
    research.backtest(cfg, [{'exchange': EX, 'strategy': S, 'symbol': SYM, 'timeframe': '5m'}], [],
                      {jh.key(EX, SYM): {'exchange': EX, 'symbol': SYM, 'candles': CANDLES.copy()}}, fast_mode=fast_mode)
    return log


print('input 1m candle of minute 10 (first minute of the 5m window):', CANDLES[10].tolist())
print('the property requires of the (forming) 5m candle: window-start timestamp, FIRST OPEN = 100, maximum high >= 100 '
      '(the minute opened at 100 before falling to 97 and 96)\n')
bad = []
for fast_mode in (False, True):
    name = 'fast' if fast_mode else 'step'
    for tag, one_m, five_m, cur in run(fast_mode):
        flag = ''
        if five_m[1] != 100 or five_m[3] < 100 or cur[1] != 100 or ('fill' in tag and one_m[1] != 100):
            flag = '   <-- open/high of the window lost'
            bad.append((name, tag))
        print(f'{name} simulator, {tag}:\n    stored 1m candle  = {one_m}\n    self.candles[-1]  = {five_m}\n'
              f'    self.current_candle = {cur}{flag}')
    print()

if bad:
    print('FAIL: at the second fill inside one 1m candle the forming 5m candle (and the stored 1m candle) read by the '
          'strategy has open 97 and high 97 although its window opened at 100: first open / maximum high are not those '
          'of the one-minute candles of the window (both simulators)')
    sys.exit(1)
print('no violation observed')
