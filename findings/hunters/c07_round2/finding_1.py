"""
C07 finding 1 - fast simulator: at a fill, the candles of the OTHER symbols are a whole chunk ahead of (or behind)
jesse's clock, so a strategy reads candles of windows that have not started yet (future data) or misses the
candles of windows that have started.

Run:  cd /tmp/wt/gc07 && PYTHONPATH=/tmp/wt/gc07 /venv/bin/python /tmp/wt/gc07.out/finding_1.py
"""
import sys
import warnings
warnings.filterwarnings('ignore')
import numpy as np
import jesse.helpers as jh
from jesse import research
from jesse.strategies import Strategy

EX = 'Binance Perpetual Futures'
A, B = 'AAA-USDT', 'BBB-USDT'
BASE = 1614816000000  # 2021-03-04T00:00:00Z, aligned to every timeframe
N = 180


def series(p0):
    rows, p = [], p0
    for i in range(N):
        c = p + (1 if i % 2 == 0 else -1)
        rows.append([BASE + i * 60000, p, c, max(p, c), min(p, c), 1 + i])
        p = c
    return np.array(rows, dtype=float)


def run(fast_mode, first):
    a, b = series(100.0), series(50.0)
    # AAA dips to 95 during minute 65 only: the limit buy at 96 fills in minute 65 (6th minute of the 2nd hour)
    a[65] = [BASE + 65 * 60000, a[64][2], a[64][2], a[64][2], 95, 66]
    seen = {}

    class S(Strategy):
        def should_long(self):
            return self.index == 0

        def go_long(self):
            self.buy = 1, 96

        def should_cancel_entry(self):
            return False

        def on_open_position(self, order):
            own = self.get_candles(EX, A, '1m')
            o1 = self.get_candles(EX, B, '1m')
            oh = self.get_candles(EX, B, '1h')
            seen.update(now=(self.time - BASE) / 60000, own_last=(own[-1][0] - BASE) / 60000,
                        other_last=(o1[-1][0] - BASE) / 60000, other_1h=np.array(oh, copy=True))

    cfg = {'starting_balance': 100000, 'fee': 0, 'type': 'futures', 'futures_leverage': 1,
           'futures_leverage_mode': 'cross', 'exchange': EX, 'warm_up_candles': 0}
    cd = {}
    for s, arr in ([(A, a), (B, b)] if first == A else [(B, b), (A, a)]):
        cd[jh.key(EX, s)] = {'exchange': EX, 'symbol': s, 'candles': arr}
    research.backtest(cfg, [{'exchange': EX, 'strategy': S, 'symbol': A, 'timeframe': '1h'}],
                      [{'exchange': EX, 'symbol': B, 'timeframe': '1h'}], cd, fast_mode=fast_mode)
    return seen, b


bad = []
print('trading route AAA 1h, data route BBB 1h; AAA entry order fills inside minute 65 (jesse clock = minute 66)')
print('the property requires: exactly one candle per STARTED window, the last one possibly still forming, i.e.')
print('  BBB 1m candles up to minute 65 and two BBB 1h candles, the 2nd one forming from minutes 60..65\n')
for fast_mode in (True, False):
    for first in (A, B):
        s, b = run(fast_mode, first)
        oh = s['other_1h']
        want_forming = [b[60][0], b[60][1], b[65][2], b[60:66, 3].max(), b[60:66, 4].min(), b[60:66, 5].sum()]
        ok = s['other_last'] == s['now'] - 1 and len(oh) == 2 and np.array_equal(oh[-1], want_forming)
        print(f"{'fast' if fast_mode else 'step'} simulator, candles dict order {first} first: clock=minute {s['now']:.0f}, "
              f"own last 1m=minute {s['own_last']:.0f}, BBB last 1m=minute {s['other_last']:.0f}, "
              f"BBB 1h candles={len(oh)}, last BBB 1h candle={oh[-1].tolist()}  -> {'ok' if ok else 'VIOLATION'}")
        if len(oh) == 2 and np.array_equal(oh[-1][1:], [b[60][1], b[119][2], b[60:120, 3].max(), b[60:120, 4].min(), b[60:120, 5].sum()]):
            print('      ^ this 1h candle is the COMPLETE window 60..119: it contains 54 minutes that are still in the future')
        if not ok and fast_mode:
            bad.append(first)

if bad:
    print('\nFAIL: in the fast simulator a strategy reading another symbol at a fill sees candles of windows that have '
          'not started yet (up to a whole chunk of future 1m candles and an already completed 1h candle) or, depending on '
          'the order of the symbols, no candle at all for windows that have started')
    sys.exit(1)
print('no violation observed')
