"""
C20 - the candle store does not keep a gapless, strictly increasing series for a higher timeframe
when the warm-up candles of an isolated backtest are not a whole number of that timeframe's windows.

inject_warmup_candles_to_store() builds the 3m candles of the warm-up period by INDEX ((i + 1) % 3 == 0),
the simulators build the 3m candles of the session by the index of the TRADING candles, and
CandlesState.forming_estimation()/get_candles() decide by len(1m storage) % 3 which 1m candles belong
to the forming candle. With 100 warm-up minutes (100 % 3 == 1) these three disagree.
Run:  cd <worktree> && PYTHONPATH=<worktree> /venv/bin/python finding_1.py
"""
import sys
import numpy as np
import jesse.helpers as jh
from jesse import research
from jesse.store import store
from jesse.strategies import Strategy

EX, SYM, TF = 'Fake Exchange', 'AAA-USDT', '3m'
T0 = 1609459200000  # 2021-01-01T00:00:00Z, a multiple of 3 minutes
W = 100             # warm-up minutes: gapless, 1m apart, ends right before T0 - but 100 % 3 == 1
N = 12              # trading minutes


def series(start, n, first_open):
    # price falls by 1 every minute; every candle opens at the previous close
    return np.array([[start + i * 60_000, first_open - i, first_open - i - 1, first_open - i, first_open - i - 1, 10.0]
                     for i in range(n)])


def minutes(ts):
    return [int((t - T0) // 60_000) for t in ts]


def run(fast_mode):
    seen = []

    class S(Strategy):
        def before(self):
            seen.append(('3m bar closing at +%d min' % ((self.time - T0) // 60_000),
                         minutes(store.candles.get_candles(EX, SYM, TF)[:, 0])[-4:]))

        def should_long(self):
            return self.index == 0

        def go_long(self):
            # limit order below the close of minute 2: it is filled inside minute 3
            self.buy = 1, self.price - 0.5

        def on_open_position(self, order):
            seen.append(('order filled in minute +3',
                         minutes(store.candles.get_candles(EX, SYM, TF)[:, 0])[-4:]))

        def should_cancel_entry(self):
            return False

    config = {'starting_balance': 100_000, 'fee': 0, 'type': 'futures', 'futures_leverage': 2,
              'futures_leverage_mode': 'cross', 'exchange': EX, 'warm_up_candles': 0}
    routes = [{'exchange': EX, 'strategy': S, 'symbol': SYM, 'timeframe': TF}]
    key = jh.key(EX, SYM)
    warmup = {key: {'exchange': EX, 'symbol': SYM, 'candles': series(T0 - W * 60_000, W, 1000 + W)}}
    candles = {key: {'exchange': EX, 'symbol': SYM, 'candles': series(T0, N, 1000)}}
    research.backtest(config, routes, [], candles, warmup_candles=warmup, fast_mode=fast_mode)
    return seen


bad = []
for fast_mode in (False, True):
    print(f'--- fast_mode={fast_mode}: start minutes (relative to the session start) of the last 3m candles '
          f'returned by store.candles.get_candles()')
    for tag, mins in run(fast_mode):
        d = np.diff(mins)
        verdict = 'ok' if np.all(d == 3) else ('NOT INCREASING' if np.any(d <= 0) else 'GAP/OVERLAP')
        print(f'    {tag:28s} {mins}   {verdict}')
        if verdict != 'ok':
            bad.append((fast_mode, tag, mins, verdict))

print()
print('The property requires: strictly increasing timestamps for every timeframe, one 3m candle every 3 minutes')
print('(i.e. [-9, -6, -3, 0] when the first 3m bar closes at +3 min, [-6, -3, 0, 3] at the fill in minute +3, ...).')
print('Input: 100 gapless 1m warm-up candles ending one minute before 12 gapless 1m trading candles.')
if bad:
    n_dec = sum(1 for b in bad if b[3] == 'NOT INCREASING')
    print(f'FAIL: with 100 warm-up minutes the 3m series of the candle store has gaps/overlaps at {len(bad)} '
          f'observations and goes backwards in time at {n_dec} of them (e.g. {bad[1][2] if len(bad) > 1 else bad[0][2]})')
    sys.exit(1)
print('PASS')
