"""
C20 - CandlesState.add_multiple_1m_candles() (the bulk add used by the fast simulator) cannot take a chunk
that overlaps the tail of the stored series when the chunk is LONGER than the stored series: it evaluates
arr[-len(candles)] before anything else and raises IndexError, although every candle of the chunk either has
the timestamp of a stored candle (must replace it) or a new, later timestamp (must be appended).
The same chunk is handled correctly as soon as the store holds at least len(chunk) candles, and add_candle()
handles the same candles one by one.
Run:  cd <worktree> && PYTHONPATH=<worktree> /venv/bin/python finding_3.py
"""
import sys
import numpy as np
from jesse.config import config, reset_config
from jesse.routes import router
from jesse.store import store

EX, SYM = 'Sandbox', 'BTC-USD'
T0 = 1609459200000


def set_up():
    reset_config()
    router.set_routes([{'exchange': EX, 'symbol': SYM, 'timeframe': '1m', 'strategy': object}])
    router.set_data_candles([])
    config['app']['considering_timeframes'] = ['1m']
    config['app']['considering_symbols'] = [SYM]
    config['app']['considering_exchanges'] = [EX]
    config['app']['trading_mode'] = 'backtest'
    store.reset(True)
    store.candles.init_storage(50)


def c(minute, price):
    return [T0 + minute * 60_000, price, price, price, price, 1.0]


def stored():
    a = store.candles.get_candles(EX, SYM, '1m')
    return [(int((r[0] - T0) // 60_000), r[2]) for r in a]


chunk = np.array([c(1, 20.0), c(2, 20.0), c(3, 20.0)])   # minute 1 is stored already, 2 and 3 are new
expected = [(0, 10.0), (1, 20.0), (2, 20.0), (3, 20.0)]

# reference 1: one by one through add_candle
set_up()
store.candles.batch_add_candle(np.array([c(0, 10.0), c(1, 10.0)]), EX, SYM, '1m', with_generation=False)
store.candles.batch_add_candle(chunk, EX, SYM, '1m', with_generation=False)
print('add_candle one by one, store held 2 candles      ->', stored())
assert stored() == expected

# reference 2: the same chunk when the store holds 3 candles
set_up()
store.candles.add_multiple_1m_candles(np.array([c(-1, 10.0), c(0, 10.0), c(1, 10.0)]), EX, SYM)
store.candles.add_multiple_1m_candles(chunk.copy(), EX, SYM)
print('add_multiple_1m_candles, store held 3 candles    ->', stored()[1:])
assert stored()[1:] == expected

# the failing case: the store holds 2 candles, the chunk has 3
set_up()
store.candles.add_multiple_1m_candles(np.array([c(0, 10.0), c(1, 10.0)]), EX, SYM)
try:
    store.candles.add_multiple_1m_candles(chunk.copy(), EX, SYM)
    result = stored()
    print('add_multiple_1m_candles, store held 2 candles    ->', result)
    error = None
except Exception as e:
    error = e
    print('add_multiple_1m_candles, store held 2 candles    -> raised', repr(e))
    print('   store afterwards:', stored())

print()
print('The property requires: a candle with the timestamp of a stored candle replaces it, a candle with a new')
print('timestamp is appended -> expected', expected)
if error is not None or result != expected:
    print('FAIL: add_multiple_1m_candles raises IndexError for a chunk that overlaps the last stored candle when the '
          'chunk is longer than the stored series, instead of replacing minute 1 and appending minutes 2 and 3')
    sys.exit(1)
print('PASS')
