"""
C20 - the isolated backtest only validates the spacing of the TRADING candles. Warm-up candles whose
leading candles are not one minute apart (e.g. the 5m candles that research.get_candles(..., '5m',
warmup_candles_num=N) returns when is_for_jesse is not set) are accepted silently and pushed into the
1m storage as if they were 1m candles: the series handed to the store is not gapless.
Run:  cd <worktree> && PYTHONPATH=<worktree> /venv/bin/python finding_2.py
"""
import sys
import numpy as np
import jesse.helpers as jh
from jesse import research
from jesse.store import store
from jesse.strategies import Strategy

EX, SYM = 'Fake Exchange', 'AAA-USDT'
T0 = 1609459200000  # 2021-01-01T00:00:00Z


def series(start, n, step_ms):
    return np.array([[start + i * step_ms, 100 + i, 101 + i, 101 + i, 100 + i, 1.0] for i in range(n)])


config = {'starting_balance': 100_000, 'fee': 0, 'type': 'futures', 'futures_leverage': 2,
          'futures_leverage_mode': 'cross', 'exchange': EX, 'warm_up_candles': 0}
key = jh.key(EX, SYM)
failures = []

for fast_mode in (False, True):
    seen = {}

    class S(Strategy):
        def before(self):
            if self.index == 0:
                seen['1m'] = store.candles.get_candles(EX, SYM, '1m')[:, 0].copy()
                seen['5m'] = self.candles[:, 0].copy()

        def should_long(self):
            return False

        def go_long(self):
            pass

        def should_cancel_entry(self):
            return False

    routes = [{'exchange': EX, 'strategy': S, 'symbol': SYM, 'timeframe': '5m'}]
    one_minute = {key: {'exchange': EX, 'symbol': SYM, 'candles': series(T0, 10, 60_000)}}
    five_minute = {key: {'exchange': EX, 'symbol': SYM, 'candles': series(T0, 10, 300_000)}}
    warmup_5m = {key: {'exchange': EX, 'symbol': SYM, 'candles': series(T0 - 20 * 300_000, 20, 300_000)}}

    # control: the check exists for the trading candles
    try:
        research.backtest(config, routes, [], five_minute, fast_mode=fast_mode)
        control = 'accepted'
    except ValueError:
        control = 'rejected with ValueError'
    print(f'fast_mode={fast_mode}: trading candles 5 minutes apart -> {control}')

    # the same kind of input as warm-up candles
    try:
        research.backtest(config, routes, [], one_minute, warmup_candles=warmup_5m, fast_mode=fast_mode)
        steps_1m = sorted(set((np.diff(seen['1m']) / 60_000).astype(int).tolist()))
        steps_5m = sorted(set((np.diff(seen['5m']) / 60_000).astype(int).tolist()))
        print(f'fast_mode={fast_mode}: warm-up candles 5 minutes apart -> accepted; '
              f'steps between stored "1m" candles (minutes): {steps_1m}; '
              f'steps between the 5m candles of the route (minutes): {steps_5m}')
        failures.append((fast_mode, steps_1m, steps_5m))
    except ValueError as e:
        print(f'fast_mode={fast_mode}: warm-up candles 5 minutes apart -> rejected ({str(e)[:60]}...)')

print()
print('The property requires: the isolated backtest rejects input whose leading candles are not one minute apart,')
print('so that the 1m series in the store is gapless (steps [1]) and the 5m series has steps [5].')
if failures:
    print(f'FAIL: research.backtest accepts warm-up candles that are 5 minutes apart; the 1m storage then has steps '
          f'{failures[0][1]} minutes and the 5m candles of the route are {failures[0][2]} minutes apart')
    sys.exit(1)
print('PASS')
