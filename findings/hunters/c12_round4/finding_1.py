"""
C12 finding 1: with a data route on a SECOND symbol, the fast simulator keeps an executed MARKET entry in the
strategy's active-order list (self.entry_orders) for one extra strategy cycle, so a "scale in once nothing is pending"
strategy places its scale-in order one trading candle later than in the normal simulator.  Orders, closed trade and
final balance differ.  The same strategy and candles WITHOUT the data route give identical results in both modes.

Run:  cd /tmp/wt/nc12 && PYTHONPATH=/tmp/wt/nc12 /venv/bin/python /tmp/wt/nc12.out/finding_1.py
"""
import sys, warnings
warnings.filterwarnings('ignore')
import numpy as np
from jesse.strategies import Strategy
from jesse.research import backtest

EX = 'Binance Perpetual Futures'
T0 = 1609459200000  # 2021-01-01 00:00 UTC
LOG = []


class ScaleIn(Strategy):
    def _log(self, order):
        LOG.append((order.side, order.type, abs(order.qty), order.price, int((order.executed_at - T0) // 60000)))

    def should_long(self):
        return self.index == 0

    def should_short(self):
        return False

    def should_cancel_entry(self):
        return False

    def go_long(self):
        self.buy = 1, self.price                       # MARKET entry

    def update_position(self):
        if self.price >= 103:
            self.liquidate()                           # MARKET exit
        elif not self.entry_orders and self.increased_count < 2:
            self.buy = 1, round(self.price - 0.5, 2)   # scale in with a LIMIT order once nothing is pending

    def on_open_position(self, order):
        self._log(order)

    def on_increased_position(self, order):
        self._log(order)

    def on_close_position(self, order):
        self._log(order)


def candles(closes):
    rows, prev = [], closes[0]
    for i, c in enumerate(closes):
        rows.append([T0 + i * 60000, prev, c, max(prev, c), min(prev, c), 10])
        prev = c
    return np.array(rows, dtype=float)


# 5m candles: flat | flat | dip to 99.4 and back | flat | rally to 104 | flat
btc = [100] * 5 + [100] * 5 + [100, 99.8, 99.4, 99.8, 100] + [100] * 5 + [100, 101, 102, 103, 104] + [104] * 5
eth = [50] * len(btc)
cfg = {'starting_balance': 10000, 'fee': 0, 'type': 'futures', 'futures_leverage': 2,
       'futures_leverage_mode': 'cross', 'exchange': EX, 'warm_up_candles': 0}
routes = [{'exchange': EX, 'strategy': ScaleIn, 'symbol': 'BTC-USDT', 'timeframe': '5m'}]


def run(with_data_route, fast):
    LOG.clear()
    cd = {f'{EX}-BTC-USDT': {'exchange': EX, 'symbol': 'BTC-USDT', 'candles': candles(btc)}}
    drs = []
    if with_data_route:
        drs = [{'exchange': EX, 'symbol': 'ETH-USDT', 'timeframe': '5m'}]
        cd[f'{EX}-ETH-USDT'] = {'exchange': EX, 'symbol': 'ETH-USDT', 'candles': candles(eth)}
    m = backtest(cfg, routes, drs, cd, fast_mode=fast)['metrics']
    return {'orders (side, type, qty, price, fill minute)': list(LOG), 'closed trades': m['total'],
            'net_profit': round(m['net_profit'], 6), 'finishing_balance': round(m['finishing_balance'], 6)}


def show(title, res):
    print(title)
    for k, v in res.items():
        print('     ', k, '=', v)


ctl_n, ctl_f = run(False, False), run(False, True)
show('control (BTC-USDT 5m only)         normal:', ctl_n)
show('control (BTC-USDT 5m only)         fast  :', ctl_f)
n, f = run(True, False), run(True, True)
show('BTC-USDT 5m + data route ETH-USDT  normal:', n)
show('BTC-USDT 5m + data route ETH-USDT  fast  :', f)

# the session is inside the "unambiguous" scope: the normal run fills at most one resting order per 5m candle
resting = [o for o in n['orders (side, type, qty, price, fill minute)'] if o[1] != 'MARKET']
spans = [(o[4] - 1) // 5 for o in resting]
assert len(spans) == len(set(spans)), 'normal run fills two resting orders in one trading candle'
assert ctl_n == ctl_f == n, 'control / normal runs are expected to agree'

print()
print('property requires: fast mode produces the same executed orders, closed trades and final balance as the normal')
print('simulator (one trading symbol, at most one resting fill per trading candle, no liquidation).')
if n != f:
    print('FAIL: with a data route on a second symbol the fast simulator never prunes the executed MARKET entry during the '
          'chunk, self.entry_orders stays non-empty for an extra cycle and orders/trade/balance differ '
          f"(balance {n['finishing_balance']} vs {f['finishing_balance']})")
    sys.exit(1)
print('OK: no difference')
