"""
C12 finding 2: in a session with two symbols and a step above one minute, the fast simulator no longer executes the
pending MARKET orders at the end of every minute of a chunk (the repair "a MARKET order submitted from a fill hook waits
until the end of the chunk" only lives in the multi-minute matcher, which the new per-minute recursion never enters).
A MARKET exit that a route hook submits for the OTHER symbol (already processed in that minute) is filled one minute
later than in the normal simulator: fill minute of the order and close time / holding period of the trade differ.
With a single 5m route + the same hook-free flow the two modes agree (see finding_1 control).

Run:  cd /tmp/wt/nc12 && PYTHONPATH=/tmp/wt/nc12 /venv/bin/python /tmp/wt/nc12.out/finding_2.py
"""
import sys, warnings
warnings.filterwarnings('ignore')
import numpy as np
from jesse.strategies import Strategy
from jesse.research import backtest

EX = 'Binance Perpetual Futures'
T0 = 1609459200000  # 2021-01-01 00:00 UTC
LOG = []


class Base(Strategy):
    def _log(self, order):
        LOG.append((self.symbol, order.side, order.type, abs(order.qty), order.price, int((order.executed_at - T0) // 60000)))

    def should_long(self):
        return self.index == 0

    def should_short(self):
        return False

    def should_cancel_entry(self):
        return False

    def on_open_position(self, order):
        self._log(order)

    def on_close_position(self, order):
        self._log(order)
        CLOSED.append((self.symbol, int((self.time - T0) // 60000)))


class Holder(Base):
    """BTC: long at market; flattens as soon as the other route opens a position (one position at a time)"""
    def go_long(self):
        self.buy = 1, self.price                 # MARKET

    def on_route_open_position(self, strategy):
        if self.position.is_open:
            self.liquidate()                     # MARKET exit at the current price


class Dipper(Base):
    """ETH: resting LIMIT buy half a dollar below the price"""
    def go_long(self):
        self.buy = 1, round(self.price - 0.5, 2)


CLOSED = []


def candles(closes):
    rows, prev = [], closes[0]
    for i, c in enumerate(closes):
        rows.append([T0 + i * 60000, prev, c, max(prev, c), min(prev, c), 10])
        prev = c
    return np.array(rows, dtype=float)


# ETH dips through 49.5 in the 1m candle with index 6 (2nd minute of the 2nd 5m candle, fill time = minute 7);
# BTC drifts up one dollar per minute
eth = [50] * 5 + [50, 49.2, 49.2, 49.2, 49.2] + [49.2] * 5
btc = [100] * 5 + [101, 102, 103, 104, 105] + [105] * 5
cfg = {'starting_balance': 10000, 'fee': 0, 'type': 'futures', 'futures_leverage': 2,
       'futures_leverage_mode': 'cross', 'exchange': EX, 'warm_up_candles': 0}
routes = [{'exchange': EX, 'strategy': Holder, 'symbol': 'BTC-USDT', 'timeframe': '5m'},
          {'exchange': EX, 'strategy': Dipper, 'symbol': 'ETH-USDT', 'timeframe': '5m'}]


def run(fast):
    LOG.clear()
    CLOSED.clear()
    cd = {f'{EX}-BTC-USDT': {'exchange': EX, 'symbol': 'BTC-USDT', 'candles': candles(btc)},
          f'{EX}-ETH-USDT': {'exchange': EX, 'symbol': 'ETH-USDT', 'candles': candles(eth)}}
    m = backtest(cfg, routes, [], cd, fast_mode=fast)['metrics']
    return {'orders (symbol, side, type, qty, price, fill minute)': list(LOG), 'position closed at minute': list(CLOSED),
            'average_holding_period (s)': m['average_holding_period'], 'finishing_balance': round(m['finishing_balance'], 6)}


n, f = run(False), run(True)
for title, res in (('normal:', n), ('fast  :', f)):
    print(title)
    for k, v in res.items():
        print('     ', k, '=', v)

# scope check on the normal run: at most one resting fill per symbol and 5m candle
resting = [o for o in n['orders (symbol, side, type, qty, price, fill minute)'] if o[2] != 'MARKET']
spans = [(o[0], (o[5] - 1) // 5) for o in resting]
assert len(spans) == len(set(spans))

print()
print('property requires: the same executed orders (side, type, quantity, price, FILL MINUTE) and the same closed trades.')
if n != f:
    print('FAIL: with two symbols the fast simulator flushes pending MARKET orders only at the end of the chunk, so the '
          'MARKET exit submitted by a route hook fills a minute later than in the normal simulator '
          '(order fill minute and trade close time differ)')
    sys.exit(1)
print('OK: no difference')
