"""
C10 - routing at the exact 0.015 % boundary is not symmetric.

Current price 20000.  20003 and 19997 are both EXACTLY 0.015 % away from it (3 / 20000 = 0.00015, all numbers are
exactly representable).  The property says that the order type depends only on the relation of p to the current price
and that a price within 0.015 % gives a MARKET order.  jesse routes the price 0.015 % BELOW the current price to a MARKET
order, but the price 0.015 % ABOVE it to a resting STOP (entry) / LIMIT (exit) order.

Run:  cd <worktree> && PYTHONPATH=<worktree> /venv/bin/python finding_1.py
"""
import sys, warnings
warnings.filterwarnings('ignore')
import numpy as np
import jesse.helpers as jh
from jesse import research
from jesse.strategies import Strategy
from jesse.store import store

EX, SYM = 'Fake Exchange', 'BTC-USDT'
CUR, UP, DOWN = 20000.0, 20003.0, 19997.0
seen = {}


def candles(n=6):
    # perfectly flat market at 20000: nothing ever trades at 20003 or 19997
    return np.array([[1609459200000 + i * 60_000, CUR, CUR, CUR, CUR, 10.0] for i in range(n)], dtype=float)


def snapshot(s, tag):
    seen[tag] = sorted((o.type, o.side, abs(o.qty), o.price, bool(o.reduce_only))
                       for o in store.orders.get_orders(s.exchange, s.symbol))


def entry_strategy(price):
    class Entry(Strategy):
        def should_long(self): return self.index == 0
        def should_cancel_entry(self): return False
        def go_long(self): self.buy = 1, price
        def after(self):
            if self.index == 0: snapshot(self, f'entry buy @ {price}')
    return Entry


class Exits(Strategy):
    def should_long(self): return self.index == 0
    def should_cancel_entry(self): return False
    def go_long(self): self.buy = 1, self.price            # plain market entry at 20000
    def on_open_position(self, order):
        self.take_profit = 0.5, UP                         # exactly +0.015 %
        self.stop_loss = 0.5, DOWN                         # exactly -0.015 %
    def after(self):
        if self.index == 1:
            seen['exits'] = sorted((o.submitted_via, o.type, o.side, abs(o.qty), o.price, o.status)
                                   for o in store.orders.get_orders(self.exchange, self.symbol) if o.reduce_only)
            seen['qty after exits'] = self.position.qty


def run(strategy):
    config = {'starting_balance': 1_000_000, 'fee': 0, 'type': 'futures', 'futures_leverage': 2,
              'futures_leverage_mode': 'cross', 'exchange': EX, 'warm_up_candles': 0}
    routes = [{'exchange': EX, 'strategy': strategy, 'symbol': SYM, 'timeframe': '1m'}]
    research.backtest(config, routes, [], {jh.key(EX, SYM): {'exchange': EX, 'symbol': SYM, 'candles': candles()}})


run(entry_strategy(UP)); run(entry_strategy(DOWN)); run(Exits)

print('relative distance of 20003 from 20000 :', (UP - CUR) / CUR, '  of 19997 :', (CUR - DOWN) / CUR, '(threshold 0.00015)')
print('jh.is_price_near(20003, 20000) =', jh.is_price_near(UP, CUR), '   jh.is_price_near(19997, 20000) =', jh.is_price_near(DOWN, CUR))
for k, v in seen.items():
    print(f'{k:22}: {v}')

up_type = seen[f'entry buy @ {UP}'][0][0]
down_type = seen[f'entry buy @ {DOWN}'][0][0]
tp = [o for o in seen['exits'] if o[0] == 'take-profit'][0]
sl = [o for o in seen['exits'] if o[0] == 'stop-loss'][0]
print()
print('property requires : both prices are exactly 0.015 % from the current price, so both entries and both exits get the')
print('                    SAME routing (MARKET orders, "within 0.015 percent"); the type depends only on that relation.')
print(f'observed          : buy @ +0.015 % -> {up_type},  buy @ -0.015 % -> {down_type};  '
      f'take-profit @ +0.015 % -> {tp[1]} ({tp[5]}),  stop-loss @ -0.015 % -> {sl[1]} ({sl[5]})')

if up_type != down_type or tp[1] != sl[1]:
    print('FAIL: a price exactly 0.015% above the current price is routed to a resting STOP/LIMIT order while a price exactly '
          '0.015% below it is routed to a MARKET order (is_price_near loses the boundary to float cancellation in 1 - p/price)')
    sys.exit(1)
print('OK')
