"""
C03 finding 1: on a futures exchange whose settlement currency is not the quote part of the
symbol (Bybit USDC Perpetual: symbols are BTC-PERP / ETH-PERP, wallet is USDC) the available
margin ignores the open positions (their entry margin AND their unrealised PnL), so orders far
beyond the real available margin are accepted instead of raising InsufficientMargin.

Run:  cd /tmp/wt/gc03 && PYTHONPATH=/tmp/wt/gc03 /venv/bin/python /tmp/wt/gc03.out/finding_1.py
"""
import sys
import numpy as np
import jesse.helpers as jh
from jesse import research
from jesse.exceptions import InsufficientMargin
from jesse.strategies import Strategy

LEV, BAL, FEE = 2, 1000.0, 0.0
PRICES = [100, 100, 100, 90, 90, 90, 90, 90]          # flat 1m candles: o=h=l=c
OBS = {}


class Scripted(Strategy):
    def should_long(self): return self.index == 0
    def should_short(self): return False
    def should_cancel_entry(self): return False
    def go_long(self): self.buy = 5, self.price              # long 5 @ 100 (market)

    def update_position(self):
        if self.index == 4:                                  # price is 90 now
            OBS['wallet'] = self.balance
            OBS['qty'] = self.position.qty
            OBS['entry'] = self.position.entry_price
            OBS['pnl'] = self.position.pnl
            OBS['avail'] = self.available_margin
            # increase by 20 @ 90: notional 1800, /leverage = 900
            self.buy = (20, self.price)


def run(exchange, symbol):
    OBS.clear()
    t0 = 1609459200000
    c = np.array([[t0 + i * 60000, p, p, p, p, 1] for i, p in enumerate(PRICES)], dtype=float)
    cfg = {'starting_balance': BAL, 'fee': FEE, 'type': 'futures', 'futures_leverage': LEV,
           'futures_leverage_mode': 'cross', 'exchange': exchange, 'warm_up_candles': 0}
    routes = [{'exchange': exchange, 'strategy': Scripted, 'symbol': symbol, 'timeframe': '1m'}]
    candles = {jh.key(exchange, symbol): {'exchange': exchange, 'symbol': symbol, 'candles': c}}
    try:
        research.backtest(cfg, routes, [], candles)
        rejected = False
    except InsufficientMargin:
        rejected = True
    return dict(OBS), rejected


# reference average-cost margin account fed the same fills
ref_wallet = BAL                                   # no fee, nothing realised
ref_qty, ref_entry, price = 5.0, 100.0, 90.0
ref_pnl = ref_qty * (price - ref_entry)            # -50
ref_avail = ref_wallet - ref_qty * ref_entry / LEV + ref_pnl     # 1000 - 250 - 50 = 700
need = 20 * price / LEV                            # 900
ref_rejected = need > ref_avail                    # True

print("Bybit's USDC perpetuals are called BTCPERP, ETHPERP...; jesse's symbol for them "
      "(what the Bybit driver's get_available_symbols() returns):", jh.dashy_symbol('BTCPERP'))
print(f'reference: wallet={ref_wallet} qty={ref_qty} entry={ref_entry} pnl={ref_pnl} '
      f'available_margin={ref_avail}; order 20 @ 90 needs {need} -> rejected={ref_rejected}')

bad = []
for exchange, symbol in [('Bybit USDT Perpetual', 'BTC-USDT'),      # control: behaves like the reference
                         ('Bybit USDC Perpetual', 'BTC-PERP'),
                         ('Bybit USDC Perpetual', 'ETH-PERP')]:
    obs, rejected = run(exchange, symbol)
    print(f'{exchange:22s} {symbol:9s}: wallet={obs["wallet"]} qty={obs["qty"]} entry={obs["entry"]} '
          f'pnl={obs["pnl"]} available_margin={obs["avail"]}; order 20 @ 90 rejected={rejected}')
    ok = (obs['wallet'] == ref_wallet and obs['qty'] == ref_qty and obs['entry'] == ref_entry
          and obs['pnl'] == ref_pnl and obs['avail'] == ref_avail and rejected == ref_rejected)
    if not ok:
        bad.append((exchange, symbol, obs['avail'], rejected))

if bad:
    print('property requires: available margin = wallet - entry margin of the open position + unrealised PnL '
          f'= {ref_avail}, and the order needing {need} must raise InsufficientMargin')
    print(f'FAIL: on {bad[0][0]} ({bad[0][1]}) available_margin is {bad[0][2]} (open position ignored) instead of '
          f'{ref_avail} and an order needing {need} of margin is accepted')
    sys.exit(1)
print('OK: no violation observed')
