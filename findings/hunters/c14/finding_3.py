"""C14 finding 3: for inputs shorter than the indicator period (well below the warm-up window,
default parameters) sequential results do not have one entry per candle / disagree with the single value:
  mfi      -> sequential result has 2*period-1-n entries (more than candles) holding non-NaN values
  donchian -> sequential raises, non-sequential silently returns a value from a shorter window
  adx      -> sequential returns a bare float instead of an array of len(candles)

Run:  cd /tmp/wt/hc14 && PYTHONPATH=/tmp/wt/hc14 /venv/bin/python /tmp/wt/hc14.out/finding_3.py
"""
import sys
import warnings
warnings.filterwarnings('ignore')
import numpy as np
import jesse.indicators as ta


def make_candles(n, seed=3):
    rng = np.random.RandomState(seed)
    close = np.abs(100 + np.cumsum(rng.normal(0, 1, n))) + 5
    open_ = np.concatenate(([close[0] - 0.3], close[:-1]))
    high = np.maximum(open_, close) + rng.uniform(0.01, 1.0, n)
    low = np.minimum(open_, close) - rng.uniform(0.01, 1.0, n)
    vol = rng.uniform(10, 1000, n)
    ts = 1609459200000 + np.arange(n) * 60000
    return np.column_stack([ts, open_, close, high, low, vol]).astype(float)


bad = []
print('--- mfi, default period=14')
for n in (5, 10, 13, 14, 15, 100):
    c = make_candles(n)
    seq = ta.mfi(c, sequential=True)
    single = ta.mfi(c)
    finite = int(np.isfinite(seq).sum())
    print(f'n={n:3d} candles: len(seq)={len(seq):3d} finite entries={finite:3d} seq[-1]={seq[-1]:.4f} single={single:.4f}')
    if len(seq) != n:
        bad.append(('mfi', n, f'len(seq)={len(seq)}'))

print('--- donchian, default period=20, n=10')
c = make_candles(10)
single = ta.donchian(c)
try:
    seq = ta.donchian(c, sequential=True)
    print('sequential ->', seq)
except Exception as e:
    print('sequential raises', repr(e), '| non-sequential returns', tuple(round(x, 4) for x in single))
    bad.append(('donchian', 10, 'seq raises, single returns numbers'))

print('--- adx, default period=14, n=14')
c = make_candles(14)
seq = ta.adx(c, sequential=True)
print('sequential ->', repr(seq), type(seq).__name__, '| non-sequential ->', ta.adx(c))
if not hasattr(seq, '__len__') or len(seq) != 14:
    bad.append(('adx', 14, 'sequential result is not an array of len(candles)'))

print()
print('property requires (input lengths below the warm-up window included): one sequential entry per input candle, seq[-1] == single')
print('observed:', bad)
if bad:
    print('FAIL: mfi(sequential=True) on n<period candles returns 2*period-1-n (> n) entries with non-NaN values; donchian/adx also break the one-entry-per-candle rule on short inputs')
    sys.exit(1)
print('OK')
