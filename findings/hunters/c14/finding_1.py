"""C14 finding 1: squeeze_momentum(sequential=True) returns a momentum_signal field
with n-1 entries for n input candles (default parameters, every input length), and the
function never applies the warm-up slicing rule for the non-sequential call.

Run:  cd /tmp/wt/hc14 && PYTHONPATH=/tmp/wt/hc14 /venv/bin/python /tmp/wt/hc14.out/finding_1.py
"""
import sys
import warnings
warnings.filterwarnings('ignore')
import numpy as np
import jesse.indicators as ta


def make_candles(n, seed=1):
    rng = np.random.RandomState(seed)
    close = np.abs(100 + np.cumsum(rng.normal(0, 1, n))) + 5
    open_ = np.concatenate(([close[0] - 0.3], close[:-1]))
    high = np.maximum(open_, close) + rng.uniform(0.01, 1.0, n)
    low = np.minimum(open_, close) - rng.uniform(0.01, 1.0, n)
    vol = rng.uniform(10, 1000, n)
    ts = 1609459200000 + np.arange(n) * 60000
    return np.column_stack([ts, open_, close, high, low, vol]).astype(float)


bad = []
print('--- clause "sequential result has exactly one entry per input candle" (default parameters)')
for n in (100, 239, 240, 241, 400):
    c = make_candles(n)
    seq = ta.squeeze_momentum(c, sequential=True)
    lens = {f: len(getattr(seq, f)) for f in seq._fields}
    print(f'n={n:4d} candles -> field lengths {lens}')
    for f, L in lens.items():
        if L != n:
            bad.append((n, f, L))

# consequence: momentum_signal[i] describes candle i+1, so it is mis-aligned with the other fields
c = make_candles(100)
seq = ta.squeeze_momentum(c, sequential=True)
mom = np.asarray(seq.momentum)
sig = seq.momentum_signal
i = next(k for k in range(45, 98) if sig[k] != sig[k - 1])
expected_for_candle_i = (1 if mom[i] > mom[i - 1] else 2) if mom[i] > 0 else (-1 if mom[i] < mom[i - 1] else -2)
print(f'momentum_signal[{i}] = {seq.momentum_signal[i]}  but the signal of candle {i} '
      f'(from momentum[{i-1}]={mom[i-1]:.4f} -> momentum[{i}]={mom[i]:.4f}) is {expected_for_candle_i}; '
      f'it is stored at index {i-1}: {seq.momentum_signal[i-1]}')

print('--- clause "non-sequential on a long input == sequential on the trailing 240-candle window"')
slic = []
for n, kw in ((241, dict(length_kc=121)), (400, dict(length_kc=121)), (400, dict(length_kc=150))):
    c = make_candles(n, 7)
    single = ta.squeeze_momentum(c, sequential=False, **kw)
    tail = ta.squeeze_momentum(c[-240:], sequential=True, **kw)
    ok = np.isclose(single.momentum, tail.momentum[-1], rtol=1e-9, equal_nan=True)
    print(f'n={n} {kw}: single(long).momentum={single.momentum:.6f}  seq(last 240)[-1].momentum={tail.momentum[-1]:.6f}  equal={ok}')
    if not ok:
        slic.append((n, kw))

print()
print('property requires: every field of the sequential result has len == number of candles;')
print('observed: momentum_signal has n-1 entries for', sorted({b[0] for b in bad}))
if slic:
    print('additionally squeeze_momentum never calls slice_candles: single(long) uses candles older than the warm-up window', slic)
if bad:
    print('FAIL: squeeze_momentum(sequential=True).momentum_signal has n-1 entries for n candles (off by one, mis-aligned with squeeze/momentum), and the function ignores the 240-candle slicing rule')
    sys.exit(1)
print('OK')
