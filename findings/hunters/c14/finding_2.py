"""C14 finding 2: smma(sequential=True) overflows on inputs longer than the warm-up window
and returns NaN/inf as its last entry, while the non-sequential call on the SAME input is finite.
The same numpy_ewma helper is used by ma(matype=23) and (a private copy) by gatorosc.

Run:  cd /tmp/wt/hc14 && PYTHONPATH=/tmp/wt/hc14 /venv/bin/python /tmp/wt/hc14.out/finding_2.py
"""
import sys
import warnings
warnings.filterwarnings('ignore')
import numpy as np
import jesse.indicators as ta


def make_candles(n, seed=3):
    rng = np.random.RandomState(seed)
    close = np.abs(100 + np.cumsum(rng.normal(0, 1, n))) + 5
    open_ = np.concatenate(([close[0] - 0.3], close[:-1]))
    high = np.maximum(open_, close) + rng.uniform(0.01, 1.0, n)
    low = np.minimum(open_, close) - rng.uniform(0.01, 1.0, n)
    vol = rng.uniform(10, 1000, n)
    ts = 1609459200000 + np.arange(n) * 60000
    return np.column_stack([ts, open_, close, high, low, vol]).astype(float)


def reference_smma(src, period):
    # independent model of what numpy_ewma computes: weighted mean with weights (1-a)^k
    a = 1.0 / period
    num = den = 0.0
    out = np.empty(len(src))
    for i, x in enumerate(src):
        num = num * (1 - a) + x
        den = den * (1 - a) + 1.0
        out[i] = num / den
    return out


bad = []
cases = [('smma', dict(period=2), 240), ('smma', dict(period=2), 1100), ('smma', dict(period=3), 2000),
         ('smma', dict(), 1000), ('smma', dict(), 3400), ('smma', dict(source_type='hl2'), 5000),
         ('ma', dict(matype=23, period=5), 5000), ('gatorosc', dict(), 5000)]
for name, kw, n in cases:
    c = make_candles(n)
    f = getattr(ta, name)
    seq = f(c, sequential=True, **kw)
    single = f(c, sequential=False, **kw)
    if name == 'gatorosc':
        seq_last, single_v, length = seq.lower[-1], single.lower, len(seq.lower)
    else:
        seq_last, single_v, length = seq[-1], single, len(seq)
    agree = bool(np.isclose(seq_last, single_v, rtol=1e-6))
    extra = ''
    if name == 'smma':
        ref = reference_smma(c[:, 2] if 'source_type' not in kw else (c[:, 3] + c[:, 4]) / 2, kw.get('period', 5))
        extra = f' reference[-1]={ref[-1]:.6f} nan_entries={int(np.isnan(np.asarray(seq, dtype=float)).sum())}'
    print(f'{name:9s} {str(kw):28s} n={n:5d} len(seq)={length:5d} seq[-1]={seq_last!s:>20} single={single_v:.6f} agree={agree}{extra}')
    if not agree:
        bad.append((name, kw, n))

print()
print('property requires: the last entry of the sequential result equals the non-sequential result on the same input')
print('(for these short periods a 240-candle warm-up reproduces the full-history value to ~1e-12, see n=1000 row).')
print('observed: sequential result degenerates to inf/NaN once (1-1/period)**-(n-1) overflows float64:', bad)
if bad:
    print('FAIL: smma/ma(matype=23)/gatorosc sequential results are NaN/inf on long inputs (e.g. smma period=2 on 1100 candles, default period on 3400) whereas the non-sequential result on the same input is finite')
    sys.exit(1)
print('OK')
