"""
C13 finding 1: smma (and everything built on it: ma(matype=23), gatorosc, and every indicator
that accepts matype=23) normalises the whole series with a factor that depends on the LENGTH
of the input:  pw0 = (1-alpha)**(n-1),  scale_arr = (1-alpha)**(-arange(n)).
For long inputs pw0 underflows to 0 and scale_arr overflows to inf, so the value at EVERY index
(including index 0) becomes inf or NaN.  The value at index i therefore depends on how many
candles follow it, not only on candles 0..i.

Run:  cd /tmp/wt/pc13 && PYTHONPATH=/tmp/wt/pc13 /venv/bin/python /tmp/wt/pc13.out/finding_1.py
"""
import sys
import warnings

warnings.filterwarnings('ignore')
import numpy as np

np.seterr(all='ignore')
import jesse.indicators as ta


def random_walk_candles(n, seed):
    r = np.random.RandomState(seed)
    close = np.abs(100.0 + np.cumsum(r.randn(n))) + 1
    open_ = np.roll(close, 1)
    open_[0] = close[0]
    high = np.maximum(open_, close) + r.rand(n)
    low = np.minimum(open_, close) - r.rand(n) * 0.5
    vol = r.rand(n) * 100 + 1
    ts = 1600000000000 + np.arange(n) * 60_000
    return np.column_stack([ts, open_, close, high, low, vol])


def same(a, b):
    close = np.isfinite(a) & np.isfinite(b) & (np.abs(a - b) <= 1e-9 * (1 + np.abs(b)))
    return bool(np.all((a == b) | (np.isnan(a) & np.isnan(b)) | close))


candles = random_walk_candles(4000, seed=1)
PREFIX = 300
failures = []

# reference model written from the definition: smma[i] = alpha*x[i] + (1-alpha)*smma[i-1]
# in its normalised (adjust=True) form, which is what numpy_ewma computes for short inputs
def ref_smma(x, period):
    a = 1.0 / period
    num = den = 0.0
    out = np.empty(len(x))
    for i, v in enumerate(x):
        num = num * (1 - a) + v
        den = den * (1 - a) + 1
        out[i] = num / den
    return out


print("smma: value at index 0..2 computed on a prefix and on longer inputs (same first candles)")
for period, n_full in [(2, 1100), (3, 1900), (5, 3200), (5, 3400), (8, 4000)]:
    full = ta.smma(candles[:n_full], period, sequential=True)
    pre = ta.smma(candles[:PREFIX], period, sequential=True)
    ref = ref_smma(candles[:PREFIX, 2], period)
    ok = same(full[:PREFIX], pre)
    print(f"  period={period} n_full={n_full}: prefix-run {pre[:3]}  reference {ref[:3]}  full-run {full[:3]}  "
          f"-> {'equal' if ok else 'DIFFERENT'}")
    assert same(pre, ref), "prefix run should agree with the reference model"
    if not ok:
        failures.append(f"smma(period={period}) on {n_full} candles")

print("ma(matype=23), period 3, 2000 candles vs first 300:")
full = ta.ma(candles[:2000], 3, matype=23, sequential=True)
pre = ta.ma(candles[:PREFIX], 3, matype=23, sequential=True)
print("  prefix-run", pre[:3], " full-run", full[:3])
if not same(full[:PREFIX], pre):
    failures.append("ma(matype=23)")

print("gatorosc (default parameters: lips smma(5)), 3400 candles vs first 300:")
full = ta.gatorosc(candles[:3400], sequential=True)
pre = ta.gatorosc(candles[:PREFIX], sequential=True)
for f in full._fields:
    a, b = getattr(full, f)[:PREFIX], getattr(pre, f)
    print(f"  {f}: prefix-run[10:13] {b[10:13]}  full-run[10:13] {a[10:13]}")
    if not same(a, b):
        failures.append(f"gatorosc.{f}")

print("kdj with slowk_matype=slowd_matype=23 (periods 3), 2000 candles vs first 300:")
full = ta.kdj(candles[:2000], 9, 3, 23, 3, 23, sequential=True)
pre = ta.kdj(candles[:PREFIX], 9, 3, 23, 3, 23, sequential=True)
print("  k prefix-run[20:23]", pre.k[20:23], " full-run[20:23]", full.k[20:23])
if not same(full.k[:PREFIX], pre.k):
    failures.append("kdj(matype 23).k")

print()
print("Property C13 requires: series(candles[:p])[i] == series(candles)[i] for every i < p and every prefix length p.")
if failures:
    print("Violated by:", ", ".join(failures))
    print("FAIL: smma/numpy_ewma scales the whole series by (1-1/period)**(n-1); on long inputs (n > ~1075 for period 2, "
          "~1840 for period 3, ~3180 for period 5) every value, even index 0, turns into inf/NaN, so early values depend on the number of later candles")
    sys.exit(1)
print("no violation observed")
