"""
C13 finding 2 (narrow, low severity): damiani_volatmeter's private atr() helper has a short-input
fallback:   if len(high) < timeperiod:  atr_array[-1] = np.mean(tr)
i.e. when there are fewer candles than the ATR period it writes a provisional value at the LAST
index.  On a longer input the same index is NaN (ATR not yet defined).  With a parameterisation
where an ATR period is larger than sed_std (e.g. sed_atr=40, sed_std=20) that provisional value
reaches the output: vol[sed_std] is finite on the prefix of sed_std+1 candles, but NaN on every
longer input.

Run:  cd /tmp/wt/pc13 && PYTHONPATH=/tmp/wt/pc13 /venv/bin/python /tmp/wt/pc13.out/finding_2.py
"""
import sys
import warnings

warnings.filterwarnings('ignore')
import numpy as np

np.seterr(all='ignore')
import jesse.indicators as ta


def random_walk_candles(n, seed):
    r = np.random.RandomState(seed)
    close = np.abs(100.0 + np.cumsum(r.randn(n))) + 1
    open_ = np.roll(close, 1)
    open_[0] = close[0]
    high = np.maximum(open_, close) + r.rand(n)
    low = np.minimum(open_, close) - r.rand(n) * 0.5
    vol = r.rand(n) * 100 + 1
    ts = 1600000000000 + np.arange(n) * 60_000
    return np.column_stack([ts, open_, close, high, low, vol])


def equal(a, b):
    return (a == b) or (np.isnan(a) and np.isnan(b))


candles = random_walk_candles(120, seed=1)
bad = []
for kw in (dict(vis_atr=13, vis_std=10, sed_atr=40, sed_std=20),
           dict(vis_atr=60, vis_std=20, sed_atr=40, sed_std=50)):
    full = ta.damiani_volatmeter(candles, sequential=True, **kw)
    p = kw['sed_std'] + 1          # prefix length: one candle more than sed_std
    pre = ta.damiani_volatmeter(candles[:p], sequential=True, **kw)
    i = p - 1
    print(f"params {kw}")
    print(f"  vol[{i}] computed on the first {p} candles : {pre.vol[i]!r}")
    print(f"  vol[{i}] computed on all {len(candles)} candles    : {full.vol[i]!r}")
    for q in (p + 1, p + 5, 80):
        mid = ta.damiani_volatmeter(candles[:q], sequential=True, **kw)
        print(f"  vol[{i}] computed on the first {q} candles : {mid.vol[i]!r}")
    if not equal(pre.vol[i], full.vol[i]):
        bad.append(kw)

print()
print("Property C13 requires the value at index i to be the same for every input length > i "
      "(value i depends only on candles 0..i).")
if bad:
    print("FAIL: damiani_volatmeter.atr() writes mean(tr) at the last index when the input is shorter than the ATR period, "
          "so vol[sed_std] is finite on the prefix of sed_std+1 candles and NaN on any longer input (ATR period > sed_std)")
    sys.exit(1)
print("no violation observed")
