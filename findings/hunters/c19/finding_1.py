"""
C19 finding 1: the LAST letter of the optimizer alphabet ('w') decodes a float hyperparameter to a
value that is not the declared max and, for many ordinary declarations, lies OUTSIDE [min, max].

Run:  cd /tmp/wt/hc19 && PYTHONPATH=/tmp/wt/hc19 /venv/bin/python /tmp/wt/hc19.out/finding_1.py
"""
import sys
import warnings
warnings.filterwarnings('ignore')
import jesse.helpers as jh
from jesse.factories import candles_from_close_prices
from jesse.strategies import Strategy
from jesse import research

CHARSET = r'()*+,-./0123456789:;<=>?@ABCDEFGHIJKLMNOPQRSTUVWXYZ[\]^_`abcdefghijklmnopqrstuvw'
FIRST, LAST = CHARSET[0], CHARSET[-1]
failed = False

# 1) direct decoding, hand-picked ordinary declarations --------------------------------------
print('--- jh.dna_to_hp, float declarations, last letter of the alphabet ---')
for mn, mx in [(0.1, 1.0), (0.0, 0.9), (0.3, 0.9), (0.2, 2.0), (-3.0, 0.1), (0.2, 0.9)]:
    decl = [{'name': 'x', 'type': float, 'min': mn, 'max': mx, 'default': mn}]
    lo = jh.dna_to_hp(decl, FIRST)['x']
    hi = jh.dna_to_hp(decl, LAST)['x']
    verdict = 'ok'
    if hi > mx:
        verdict = 'ABOVE max (out of range)'
    elif hi != mx:
        verdict = 'not equal to max'
    if hi != mx:
        failed = True
    print(f'min={mn!r:5} max={mx!r:5}  first-> {lo!r:5}  last-> {hi!r:22} {verdict}')

# 2) how common is it: all 1-decimal bounds in [-3, 3] ------------------------------------
vals = [i / 10 for i in range(-30, 31)]
n = above = unequal = 0
for mn in vals:
    for mx in vals:
        if mn >= mx:
            continue
        n += 1
        hi = jh.dna_to_hp([{'name': 'x', 'type': float, 'min': mn, 'max': mx}], LAST)['x']
        above += hi > mx
        unequal += hi != mx
print(f'\ngrid of {n} declarations with one-decimal bounds in [-3,3]: '
      f'last letter != max in {unequal}, last letter > max in {above}')

# 3) the out-of-range value really reaches the strategy (dna(), both simulators) ------------
DECL = [{'name': 'risk', 'type': float, 'min': 0.1, 'max': 1.0, 'default': 0.5}]
seen = {}


def make_strategy(tag):
    class S(Strategy):
        def before(self):
            if self.index == 0:
                seen[tag] = self.hp['risk']

        def should_long(self): return False
        def should_cancel_entry(self): return True
        def go_long(self): pass
        def hyperparameters(self): return DECL
        def dna(self): return LAST
    return S


ex, sym = 'Fake Exchange', 'FAKE-USDT'
config = {'starting_balance': 10_000, 'fee': 0, 'type': 'futures', 'futures_leverage': 2,
          'futures_leverage_mode': 'cross', 'exchange': ex, 'warm_up_candles': 0}
candles = {jh.key(ex, sym): {'exchange': ex, 'symbol': sym,
                             'candles': candles_from_close_prices(list(range(100, 130)))}}
print('\n--- backtest, strategy declares risk in [0.1, 1.0] and dna() == "w" ---')
for fast in (False, True):
    routes = [{'exchange': ex, 'strategy': make_strategy(fast), 'symbol': sym, 'timeframe': '1m'}]
    research.backtest(config, routes, [], candles, fast_mode=fast)
    v = seen[fast]
    print(f'fast_mode={fast}: strategy saw self.hp["risk"] = {v!r}; declared max = 1.0; '
          f'in range: {0.1 <= v <= 1.0}')
    if not (0.1 <= v <= 1.0):
        failed = True

# 4) consequence: an all-in spot strategy works with risk == max (1.0) but crashes with gene 'w' --
def make_spot(dna):
    class A(Strategy):
        def should_long(self): return self.index == 2
        def should_cancel_entry(self): return True
        def go_long(self): self.buy = (self.balance * self.hp['risk']) / self.price, self.price
        def hyperparameters(self):
            return [{'name': 'risk', 'type': float, 'min': 0.1, 'max': 1.0, 'default': 1.0}]
    if dna:
        A.dna = lambda self: dna
    return A


spot = {'starting_balance': 10_000, 'fee': 0, 'type': 'spot', 'exchange': ex, 'warm_up_candles': 0}
print('\n--- spot, go_long spends balance*risk, risk declared in [0.1, 1.0] ---')
for dna in (None, LAST):
    try:
        r = research.backtest(spot, [{'exchange': ex, 'strategy': make_spot(dna), 'symbol': sym,
                                      'timeframe': '1m'}], [], candles)
        print(f'dna={dna!r}: backtest ok, trades={r["metrics"]["total"]}')
    except Exception as e:
        print(f'dna={dna!r}: backtest raised {type(e).__name__}: {str(e)[:120]}')

print('\nProperty C19 requires: every letter decodes to a value inside the declared [min, max] and '
      'the last letter of the alphabet maps to max.')
if failed:
    print('FAIL: dna_to_hp decodes the last gene letter of a float hyperparameter via '
          '((79*(max-min))/79)+min, whose float rounding yields a value != max and often > max '
          '(e.g. [0.1,1.0] -> 1.0000000000000002), which the backtest exposes to the strategy.')
    sys.exit(1)
print('PASS')
