"""
C19 finding 2 (interpretation-dependent, weaker than finding 1): precedence between explicit
hyperparameters / dna() / declared defaults is applied to the WHOLE dict, not per parameter.
A DNA shorter than the declaration list, or an explicit dict naming only some parameters, leaves
the remaining declared parameters with NO value at all (their declared defaults are dropped).

Run:  cd /tmp/wt/hc19 && PYTHONPATH=/tmp/wt/hc19 /venv/bin/python /tmp/wt/hc19.out/finding_2.py
"""
import sys
import warnings
warnings.filterwarnings('ignore')
import jesse.helpers as jh
from jesse.factories import candles_from_close_prices
from jesse.strategies import Strategy
from jesse import research

DECL = [
    {'name': 'period', 'type': int, 'min': 10, 'max': 95, 'default': 70},
    {'name': 'risk', 'type': float, 'min': 0.5, 'max': 2.5, 'default': 1.5},   # added later
]
seen = {}


def make_strategy(tag, dna):
    class S(Strategy):
        def before(self):
            if self.index == 0:
                seen[tag] = dict(self.hp)

        def should_long(self): return False
        def should_cancel_entry(self): return True
        def go_long(self): pass
        def hyperparameters(self): return DECL
    if dna is not None:
        S.dna = lambda self: dna
    return S


ex, sym = 'Fake Exchange', 'FAKE-USDT'
config = {'starting_balance': 10_000, 'fee': 0, 'type': 'futures', 'futures_leverage': 2,
          'futures_leverage_mode': 'cross', 'exchange': ex, 'warm_up_candles': 0}
candles = {jh.key(ex, sym): {'exchange': ex, 'symbol': sym,
                             'candles': candles_from_close_prices(list(range(100, 130)))}}


def run(tag, dna, explicit, fast):
    routes = [{'exchange': ex, 'strategy': make_strategy(tag, dna), 'symbol': sym, 'timeframe': '1m'}]
    research.backtest(config, routes, [], candles, hyperparameters=explicit, fast_mode=fast)
    return seen[tag]


failed = False
print('direct decode of the 1-letter DNA "(" against 2 declarations:', jh.dna_to_hp(DECL, '('))
for fast in (False, True):
    print(f'--- fast_mode={fast} ---')
    # a) dna() written when the strategy had one parameter; a second one (with default) was added
    got = run(('dna', fast), '(', None, fast)
    want = {'period': 10, 'risk': 1.5}      # dna() for the gene it has, default for the rest
    print(f'dna()="(" , no explicit      : strategy saw {got}; per-parameter precedence gives {want}')
    failed |= got != want
    # b) explicit hyperparameters naming only one parameter, dna() covering both
    got = run(('exp', fast), '(w', {'period': 42}, fast)
    want = {'period': 42, 'risk': 2.5}      # explicit for period, dna() ('w' -> max) for risk
    print(f'dna()="(w", explicit period=42: strategy saw {got}; per-parameter precedence gives {want}')
    failed |= got != want
    # c) explicit hyperparameters naming only one parameter, no dna()
    got = run(('def', fast), None, {'period': 42}, fast)
    want = {'period': 42, 'risk': 1.5}
    print(f'no dna()  , explicit period=42: strategy saw {got}; per-parameter precedence gives {want}')
    failed |= got != want

print('\nProperty C19 requires: every DNA string decodes, for every hyperparameter declaration, into '
      'a value in range; the backtest exposes the given values with explicit values taking '
      'precedence over dna() and dna() over defaults.')
if failed:
    print('FAIL: a short DNA or a partial explicit hyperparameters dict replaces self.hp wholesale, '
          'so declared parameters it does not cover get no value (self.hp[name] raises KeyError) '
          'instead of falling back to dna()/default.')
    sys.exit(1)
print('PASS')
