"""C08 finding 1: a position opened in the middle of a minute is liquidated at a price that the
remaining part of that minute's price path never reaches (liquidation is checked against the
whole candle, not against the part of the path after the entry fill).

run:  cd /tmp/wt/hc08 && PYTHONPATH=/tmp/wt/hc08 /venv/bin/python /tmp/wt/hc08.out/finding_1.py
"""
import sys, warnings
warnings.filterwarnings('ignore')
import numpy as np
import jesse.helpers as jh
from jesse.strategies import Strategy
from jesse import research
from jesse.store import store

EX, SYM, T0 = 'Fake Exchange', 'FAKE-USDT', 1_599_955_200_000
events = []


class S(Strategy):
    def should_long(self):
        return self.index == 0

    def should_short(self):
        return False

    def should_cancel_entry(self):
        return False

    def go_long(self):
        self.buy = (1, 115)  # stop-buy above the market (price is 100 now)

    def on_open_position(self, order):
        events.append(('open', float(order.price), order.type, int(store.app.time),
                       float(self.position.liquidation_price)))

    def on_close_position(self, order):
        events.append(('close', float(order.price), order.type, int(store.app.time), None))


# minute 0: flat at 100 (orders are placed after it)
# minute 1: RISING candle open=100 low=90 high=120 close=110 -> path 100 -> 90 -> 120 -> 110
# minutes 2,3: flat at 110
rows = [[T0, 100, 100, 100, 100, 1],
        [T0 + 60_000, 100, 110, 120, 90, 1],
        [T0 + 120_000, 110, 110, 110, 110, 1],
        [T0 + 180_000, 110, 110, 110, 110, 1]]
config = {'starting_balance': 1000, 'fee': 0, 'type': 'futures', 'futures_leverage': 10,
          'futures_leverage_mode': 'isolated', 'exchange': EX, 'warm_up_candles': 0}
routes = [{'exchange': EX, 'strategy': S, 'symbol': SYM, 'timeframe': '1m'}]
res = research.backtest(config, routes, [], {jh.key(EX, SYM): {
    'exchange': EX, 'symbol': SYM, 'candles': np.array(rows, dtype=float)}}, fast_mode=False)

minute1_end = T0 + 120_000
for e in events:
    print('event', e, '(inside minute 1)' if e[3] == minute1_end else '')

opens = [e for e in events if e[0] == 'open']
closes = [e for e in events if e[0] == 'close' and e[3] == minute1_end]
print()
print('candle of minute 1: open=100 low=90 high=120 close=110 (rising) -> path 100 -> 90 -> 120 -> 110')
print('the stop-buy at 115 is reached on the way up from the low (90) to the high (120), i.e. AFTER the low')
print('property: after that fill only the rest of the path (115 -> 120 -> 110, prices in [110, 120]) can produce fills')
if opens and closes:
    liq = opens[0][4]
    print(f'observed: entry fill at {opens[0][1]} (liquidation price {liq:.2f}), then in the SAME minute a '
          f'{closes[0][2]} fill at {closes[0][1]} closes the position (liquidation); '
          f'net profit {res["metrics"].get("net_profit_percentage")}%')
    if closes[0][1] < 110 and liq < 110:
        print('FAIL: position opened at 115 after the low of a rising minute is liquidated in that same minute at '
              f'{closes[0][1]} although the remaining path 115->120->110 never comes near the liquidation price {liq:.2f}')
        sys.exit(1)
print('PASS: no off-path liquidation fill observed')
