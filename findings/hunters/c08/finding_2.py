"""C08 finding 2: inside one minute the liquidation price of an open position is passed by the
price path BEFORE a resting take-profit is reached, yet the take-profit fills and the liquidation
never happens (liquidations are only looked at after all order fills of the minute).

run:  cd /tmp/wt/hc08 && PYTHONPATH=/tmp/wt/hc08 /venv/bin/python /tmp/wt/hc08.out/finding_2.py
"""
import sys, warnings
warnings.filterwarnings('ignore')
import numpy as np
import jesse.helpers as jh
from jesse.strategies import Strategy
from jesse import research
from jesse.store import store

EX, SYM, T0 = 'Fake Exchange', 'FAKE-USDT', 1_599_955_200_000


def run(candle_ohlc):
    events = []

    class S(Strategy):
        def should_long(self):
            return self.index == 0

        def should_short(self):
            return False

        def go_long(self):
            self.buy = (1, self.price)      # market entry at 100 at the end of minute 0
            self.take_profit = (1, 120)     # resting take-profit

        def on_open_position(self, order):
            events.append(('open', float(order.price), order.type, int(store.app.time),
                           float(self.position.liquidation_price)))

        def on_close_position(self, order):
            events.append(('close', float(order.price), order.type, int(store.app.time), None))

    o, h, l, c = candle_ohlc
    rows = [[T0, 100, 100, 100, 100, 1],
            [T0 + 60_000, o, c, h, l, 1],
            [T0 + 120_000, c, c, c, c, 1],
            [T0 + 180_000, c, c, c, c, 1]]
    config = {'starting_balance': 1000, 'fee': 0, 'type': 'futures', 'futures_leverage': 10,
              'futures_leverage_mode': 'isolated', 'exchange': EX, 'warm_up_candles': 0}
    routes = [{'exchange': EX, 'strategy': S, 'symbol': SYM, 'timeframe': '1m'}]
    res = research.backtest(config, routes, [], {jh.key(EX, SYM): {
        'exchange': EX, 'symbol': SYM, 'candles': np.array(rows, dtype=float)}}, fast_mode=False)
    return events, res['metrics'].get('net_profit_percentage')


# control: the low (85) is touched but the take-profit is not: the position IS liquidated
ev_c, pnl_c = run((100, 110, 85, 105))
print('control  candle o=100 h=110 l=85 c=105 :', [(e[0], e[1], e[2]) for e in ev_c], 'net profit %', pnl_c)
# test: rising candle o=100 l=85 h=125 c=110 -> path 100 -> 85 -> 125 -> 110
ev, pnl = run((100, 125, 85, 110))
print('test     candle o=100 h=125 l=85 c=110 :', [(e[0], e[1], e[2]) for e in ev], 'net profit %', pnl)
liq = [e for e in ev if e[0] == 'open'][0][4]
closes = [e for e in ev if e[0] == 'close']
print()
print(f'long 1 @ 100 with 10x isolated margin, liquidation price {liq:.2f}, take-profit resting at 120')
print('rising minute: path 100 -> 85 -> 125 -> 110 : the liquidation price is passed on the way DOWN to the low,')
print('before the path turns up and reaches the take-profit at 120')
print('property: fills of a minute happen in the order in which the single path open->low->high->close reaches their prices')
print('          => the position has to be liquidated first; the take-profit can no longer fill')
print(f'observed: closing fill = {closes[0][2]} at {closes[0][1]}, trade result {pnl}% (control run: liquidated, {pnl_c}%)')
if closes and closes[0][1] == 120.0 and 85 <= liq <= 100:
    print(f'FAIL: take-profit at 120 fills although the path of the rising minute passes the liquidation price {liq:.2f} '
          'first (liquidation is only checked after all order fills, with the whole candle)')
    sys.exit(1)
print('PASS: liquidation happened before the take-profit')
