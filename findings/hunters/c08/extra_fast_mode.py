"""Observation OUTSIDE the strict scope of C08 (the property names the NORMAL simulator): with
fast_mode=True and a 1m route (chunk of one minute) three resting orders are not filled along the
path: after the first fill the executing orders are re-fetched but never re-sorted, so the next
fill is taken in creation order; a touched order can even be skipped for the minute.

run:  cd /tmp/wt/hc08 && PYTHONPATH=/tmp/wt/hc08 /venv/bin/python /tmp/wt/hc08.out/extra_fast_mode.py
"""
import sys, warnings
warnings.filterwarnings('ignore')
import numpy as np
import jesse.helpers as jh
from jesse.strategies import Strategy
from jesse import research
from jesse.store import store

EX, SYM, T0 = 'Fake Exchange', 'FAKE-USDT', 1_599_955_200_000


def run(fast):
    fills = []

    class S(Strategy):
        def should_long(self):
            return self.index == 0

        def should_short(self):
            return False

        def should_cancel_entry(self):
            return False

        def go_long(self):
            self.buy = [(1, 18), (1, 8), (1, 12)]

        def on_open_position(self, order):
            fills.append((int(store.app.time - T0) // 60_000 - 1, float(order.price)))

        on_increased_position = on_open_position

    # minute 0 flat at 10; minute 1 rising o=10 l=5 h=20 c=15 (path 10->5->20->15); minutes 2,3 flat at 15
    rows = [[T0, 10, 10, 10, 10, 1], [T0 + 60_000, 10, 15, 20, 5, 1],
            [T0 + 120_000, 15, 15, 15, 15, 1], [T0 + 180_000, 15, 15, 15, 15, 1]]
    config = {'starting_balance': 100_000, 'fee': 0, 'type': 'futures', 'futures_leverage': 2,
              'futures_leverage_mode': 'cross', 'exchange': EX, 'warm_up_candles': 0}
    routes = [{'exchange': EX, 'strategy': S, 'symbol': SYM, 'timeframe': '1m'}]
    research.backtest(config, routes, [], {jh.key(EX, SYM): {
        'exchange': EX, 'symbol': SYM, 'candles': np.array(rows, dtype=float)}}, fast_mode=fast)
    return fills


normal, fast = run(False), run(True)
print('path of minute 1: 10 -> 5 -> 20 -> 15; resting buys created in the order 18, 8, 12')
print('expected (minute, price):', [(1, 8.0), (1, 12.0), (1, 18.0)])
print('normal simulator        :', normal)
print('fast simulator          :', fast)
if fast != [(1, 8.0), (1, 12.0), (1, 18.0)]:
    print('FAIL: (fast simulator, outside the "normal simulator" scope of C08) fills of one minute do not follow the path: ' + str(fast))
    sys.exit(1)
print('PASS')
