"""
C12 finding 2: the fast simulator checks the liquidation price of an isolated-margin futures position
against the aggregate candle of the WHOLE chunk (_simulate_price_change_effect_multiple_candles ->
_check_for_liquidations(real_candle)), including the minutes that elapsed BEFORE the position was
opened inside that chunk. The normal simulator checks each 1m candle on its own. So a breakout entry
(stop order) that is filled late in a trading candle which started far below the entry is liquidated
at once in fast mode, although the price never came near the liquidation price after the entry and the
normal simulator reports no liquidation at all.

Run:  cd <worktree> && PYTHONPATH=<worktree> /venv/bin/python finding_2.py
"""
import sys, warnings
warnings.filterwarnings('ignore')
import numpy as np
import jesse.helpers as jh
from jesse import research
from jesse.models import Order
from jesse.modes import backtest_mode as bm
from jesse.store import store
from jesse.strategies import Strategy

T0 = 1609459200000  # 2021-01-01T00:00:00Z
LOG = {}
_orig_execute, _orig_outputs = Order.execute, bm._generate_outputs


def _execute(self, silent=False):  # record every fill: side, type, qty, price, fill minute
    if not (self.is_canceled or self.is_executed):
        LOG['orders'].append((self.side, self.type, abs(self.qty), float(self.price), int((store.app.time - T0) // 60000)))
    return _orig_execute(self, silent)


def _outputs(*a, **k):  # record closed trades / balances / liquidations before the store is reset
    LOG['trades'] = [(t.type, t.qty, t.entry_price, round(t.exit_price, 6), int((t.opened_at - T0) // 60000),
                      int((t.closed_at - T0) // 60000), round(t.pnl, 6)) for t in store.completed_trades.trades]
    LOG['balance'] = {n: dict(e.assets) for n, e in store.exchanges.storage.items()}
    LOG['liquidations'] = store.app.total_liquidations
    return _orig_outputs(*a, **k)


Order.execute, bm._generate_outputs = _execute, _outputs


def run(strategy, ohlc, timeframe, fast, leverage=1, mode='cross'):
    candles = np.array([[T0 + i * 60000, o, c, h, l, 10] for i, (o, c, h, l) in enumerate(ohlc)], dtype=float)
    cfg = {'starting_balance': 100000, 'fee': 0, 'type': 'futures', 'futures_leverage': leverage,
           'futures_leverage_mode': mode, 'exchange': 'Sandbox', 'warm_up_candles': 0}
    routes = [{'exchange': 'Sandbox', 'strategy': strategy, 'symbol': 'BTC-USDT', 'timeframe': timeframe}]
    LOG.clear(); LOG['orders'] = []
    research.backtest(cfg, routes, [], {jh.key('Sandbox', 'BTC-USDT'): {
        'exchange': 'Sandbox', 'symbol': 'BTC-USDT', 'candles': candles}}, fast_mode=fast)
    return dict(LOG)


class Breakout(Strategy):
    def should_long(self): return self.index == 0
    def should_short(self): return False
    def should_cancel_entry(self): return False

    def go_long(self):
        self.buy = 1, 1025          # stop-buy above the market (price is 1000)
        self.stop_loss = 1, 1015    # liquidation price at 50x isolated: 1025 * (1 - 0.02 + 0.004) = 1008.6
        self.take_profit = 1, 1100  # exits are 85 apart, a 15m candle moves 30 at most


ohlc = [(1000, 1000, 1000.5, 999.5)] * 15           # (open, close, high, low); no gaps anywhere
p = 1000
for _ in range(15):                                  # second 15m candle: steady rise 1000 -> 1030
    ohlc.append((p, p + 2, p + 2, p)); p += 2       # the stop-buy at 1025 fills in its 13th minute
ohlc += [(1030, 1030, 1030.5, 1029.5)] * 30         # price never drops below 1024 after the entry

normal = run(Breakout, ohlc, '15m', fast=False, leverage=50, mode='isolated')
fast = run(Breakout, ohlc, '15m', fast=True, leverage=50, mode='isolated')
m = 15
per_span = {}
for o in normal['orders']:
    if o[1] != 'MARKET':
        per_span[(o[4] - 1) // m] = per_span.get((o[4] - 1) // m, 0) + 1
print('in scope: normal sim fills at most one resting order per 15m span:', all(v <= 1 for v in per_span.values()),
      '| liquidations normal/fast:', normal['liquidations'], fast['liquidations'])
for k in ('orders', 'trades', 'balance'):
    print(f'{k}:\n   normal: {normal[k]}\n   fast  : {fast[k]}')
print('\nProperty C12 requires identical executed orders, closed trades and final balances.')
if all(normal[k] == fast[k] for k in ('orders', 'trades', 'balance')):
    print('PASS: no difference'); sys.exit(0)
print('FAIL: fast mode liquidates the position right after its entry because it tests the liquidation price against the whole 15m chunk (low 1000, before the entry); the normal simulator has no liquidation and a +5 trade')
sys.exit(1)
