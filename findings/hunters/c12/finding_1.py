"""
C12 finding 1: inside a fast-mode chunk the 1m candles whose open differs from the previous close
("jumped" candles) are NOT normalised with _get_fixed_jumped_candle (only the first candle of the
chunk is), while the normal simulator normalises every 1m candle. When a resting order's price equals
the raw open of such a candle, split_candle() takes its `price == open` branch and returns the WHOLE
candle as the "part before the fill": position.current_price / self.price seen by the strategy hook is
the candle's close instead of the fill price. A strategy that closes the rest of its position at
market from on_reduced_position() (self.liquidate(), a documented pattern) therefore gets a different
exit price, a different closed trade and a different final balance in fast mode.

Run:  cd <worktree> && PYTHONPATH=<worktree> /venv/bin/python finding_1.py
"""
import sys, warnings
warnings.filterwarnings('ignore')
import numpy as np
import jesse.helpers as jh
from jesse import research
from jesse.models import Order
from jesse.modes import backtest_mode as bm
from jesse.store import store
from jesse.strategies import Strategy

T0 = 1609459200000  # 2021-01-01T00:00:00Z
LOG = {}
_orig_execute, _orig_outputs = Order.execute, bm._generate_outputs


def _execute(self, silent=False):  # record every fill: side, type, qty, price, fill minute
    if not (self.is_canceled or self.is_executed):
        LOG['orders'].append((self.side, self.type, abs(self.qty), float(self.price), int((store.app.time - T0) // 60000)))
    return _orig_execute(self, silent)


def _outputs(*a, **k):  # record closed trades / balances / liquidations before the store is reset
    LOG['trades'] = [(t.type, t.qty, t.entry_price, round(t.exit_price, 6), int((t.opened_at - T0) // 60000),
                      int((t.closed_at - T0) // 60000), round(t.pnl, 6)) for t in store.completed_trades.trades]
    LOG['balance'] = {n: dict(e.assets) for n, e in store.exchanges.storage.items()}
    LOG['liquidations'] = store.app.total_liquidations
    return _orig_outputs(*a, **k)


Order.execute, bm._generate_outputs = _execute, _outputs


def run(strategy, ohlc, timeframe, fast, leverage=1, mode='cross'):
    candles = np.array([[T0 + i * 60000, o, c, h, l, 10] for i, (o, c, h, l) in enumerate(ohlc)], dtype=float)
    cfg = {'starting_balance': 100000, 'fee': 0, 'type': 'futures', 'futures_leverage': leverage,
           'futures_leverage_mode': mode, 'exchange': 'Sandbox', 'warm_up_candles': 0}
    routes = [{'exchange': 'Sandbox', 'strategy': strategy, 'symbol': 'BTC-USDT', 'timeframe': timeframe}]
    LOG.clear(); LOG['orders'] = []
    research.backtest(cfg, routes, [], {jh.key('Sandbox', 'BTC-USDT'): {
        'exchange': 'Sandbox', 'symbol': 'BTC-USDT', 'candles': candles}}, fast_mode=fast)
    return dict(LOG)


class PartialTakeProfitThenLiquidate(Strategy):
    def should_long(self): return self.index == 0
    def should_short(self): return False
    def should_cancel_entry(self): return False

    def go_long(self):
        self.buy = 2, self.price                       # market entry at 100
        self.stop_loss = 2, 80                         # exits are 25 .. 50 apart: far wider than any 5m candle
        self.take_profit = [(1, 105), (1, 130)]

    def on_reduced_position(self, order):
        self.liquidate()                               # close the rest at market once TP1 is hit


flat = (100, 100, 100.5, 99.5)                         # (open, close, high, low)
ohlc = [flat] * 5 + [
    (100, 101, 101, 100),
    (105, 107, 108, 104),   # 2nd candle of the 5m chunk: opens at 105 although the previous close is 101
    (107, 107, 107.5, 106.5), (107, 107, 107.5, 106.5), (107, 107, 107.5, 106.5),
] + [(107, 107, 107.5, 106.5)] * 5

normal = run(PartialTakeProfitThenLiquidate, ohlc, '5m', fast=False)
fast = run(PartialTakeProfitThenLiquidate, ohlc, '5m', fast=True)
m = 5
per_span = {}
for o in normal['orders']:
    if o[1] != 'MARKET':
        per_span[(o[4] - 1) // m] = per_span.get((o[4] - 1) // m, 0) + 1
print('in scope: normal sim fills at most one resting order per 5m span:', all(v <= 1 for v in per_span.values()),
      '| liquidations normal/fast:', normal['liquidations'], fast['liquidations'])
for k in ('orders', 'trades', 'balance'):
    print(f'{k}:\n   normal: {normal[k]}\n   fast  : {fast[k]}')
print('\nProperty C12 requires identical executed orders, closed trades and final balances.')
if all(normal[k] == fast[k] for k in ('orders', 'trades', 'balance')):
    print('PASS: no difference'); sys.exit(0)
print('FAIL: fast mode does not normalise a jumped 1m candle inside a chunk, so after the TP1 fill at the '
      "candle's raw open the strategy sees price 107 instead of 105 and the market exit / trade / balance differ")
sys.exit(1)
