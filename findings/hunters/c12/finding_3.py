"""
C12 finding 3 (same root cause as finding 1, different symptom: an extra fill): only the first 1m
candle of a fast-mode chunk is normalised with _get_fixed_jumped_candle. For a later candle that opens
away from the previous close, fast mode widens high/low to the previous close but keeps the raw open,
so split_candle() returns a "rest of the candle" that still spans the whole gap. An exit order placed
by the entry fill inside that gap (here the stop-loss 1 below a stop-buy entry) is then filled in the
same minute in fast mode; in the normal simulator the rest of the candle starts at the fill price and
the stop-loss is never touched.

Run:  cd <worktree> && PYTHONPATH=<worktree> /venv/bin/python finding_3.py
"""
import sys, warnings
warnings.filterwarnings('ignore')
import numpy as np
import jesse.helpers as jh
from jesse import research
from jesse.models import Order
from jesse.modes import backtest_mode as bm
from jesse.store import store
from jesse.strategies import Strategy

T0 = 1609459200000  # 2021-01-01T00:00:00Z
LOG = {}
_orig_execute, _orig_outputs = Order.execute, bm._generate_outputs


def _execute(self, silent=False):  # record every fill: side, type, qty, price, fill minute
    if not (self.is_canceled or self.is_executed):
        LOG['orders'].append((self.side, self.type, abs(self.qty), float(self.price), int((store.app.time - T0) // 60000)))
    return _orig_execute(self, silent)


def _outputs(*a, **k):  # record closed trades / balances / liquidations before the store is reset
    LOG['trades'] = [(t.type, t.qty, t.entry_price, round(t.exit_price, 6), int((t.opened_at - T0) // 60000),
                      int((t.closed_at - T0) // 60000), round(t.pnl, 6)) for t in store.completed_trades.trades]
    LOG['balance'] = {n: dict(e.assets) for n, e in store.exchanges.storage.items()}
    LOG['liquidations'] = store.app.total_liquidations
    return _orig_outputs(*a, **k)


Order.execute, bm._generate_outputs = _execute, _outputs


def run(strategy, ohlc, timeframe, fast, leverage=1, mode='cross'):
    candles = np.array([[T0 + i * 60000, o, c, h, l, 10] for i, (o, c, h, l) in enumerate(ohlc)], dtype=float)
    cfg = {'starting_balance': 100000, 'fee': 0, 'type': 'futures', 'futures_leverage': leverage,
           'futures_leverage_mode': mode, 'exchange': 'Sandbox', 'warm_up_candles': 0}
    routes = [{'exchange': 'Sandbox', 'strategy': strategy, 'symbol': 'BTC-USDT', 'timeframe': timeframe}]
    LOG.clear(); LOG['orders'] = []
    research.backtest(cfg, routes, [], {jh.key('Sandbox', 'BTC-USDT'): {
        'exchange': 'Sandbox', 'symbol': 'BTC-USDT', 'candles': candles}}, fast_mode=fast)
    return dict(LOG)


class StopEntry(Strategy):
    def should_long(self): return self.index == 0
    def should_short(self): return False
    def should_cancel_entry(self): return False

    def go_long(self):
        self.buy = 1, 102           # stop-buy above the market (price is 100)
        self.stop_loss = 1, 101
        self.take_profit = 1, 130   # the two exits are 29 apart; the widest 5m candle spans 10.5


flat = (100, 100, 100.5, 99.5)                         # (open, close, high, low)
ohlc = [flat] * 5 + [
    flat,
    (105, 108, 110, 104),   # 2nd candle of the 5m chunk: previous close 100, opens at 105 and only rises
    (108, 108, 109, 107.5), (108, 108, 109, 107.5), (108, 108, 109, 107.5),
] + [(108, 108, 109, 107.5)] * 5

normal = run(StopEntry, ohlc, '5m', fast=False)
fast = run(StopEntry, ohlc, '5m', fast=True)
m = 5
per_span = {}
for o in normal['orders']:
    if o[1] != 'MARKET':
        per_span[(o[4] - 1) // m] = per_span.get((o[4] - 1) // m, 0) + 1
print('in scope: normal sim fills at most one resting order per 5m span:', all(v <= 1 for v in per_span.values()),
      '| liquidations normal/fast:', normal['liquidations'], fast['liquidations'])
for k in ('orders', 'trades', 'balance'):
    print(f'{k}:\n   normal: {normal[k]}\n   fast  : {fast[k]}')
print('\nProperty C12 requires identical executed orders, closed trades and final balances.')
if all(normal[k] == fast[k] for k in ('orders', 'trades', 'balance')):
    print('PASS: no difference'); sys.exit(0)
print('FAIL: fast mode fills the stop-loss at 101 in the same minute as the stop-buy at 102 (rest-of-candle keeps low 100 because the jumped candle is not normalised inside a chunk); the normal simulator fills only the entry')
sys.exit(1)
