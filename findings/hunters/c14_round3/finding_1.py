"""
C14 finding 1: vwap(sequential=False) returns None where vwap(sequential=True)[-1] is NaN.

Trigger: a perfectly legal NO-TRADE candle (volume 0, open == high == low == close) that is the
first candle of a new anchor period (default anchor 'D': the 00:00 UTC candle), so the cumulative
volume of the period is 0 and the VWAP of that candle is 0/0.

Run:  cd /tmp/wt/pc14 && PYTHONPATH=/tmp/wt/pc14 /venv/bin/python /tmp/wt/pc14.out/finding_1.py
"""
import sys
import warnings
import numpy as np

warnings.filterwarnings('ignore')
import jesse.indicators as ta

DAY = 86_400_000
MIN = 60_000


def candles_ending_at_day_open(n: int, seed: int = 1) -> np.ndarray:
    """n one-minute candles; the LAST one opens at 00:00 UTC and is a no-trade candle."""
    rng = np.random.RandomState(seed)
    last_ts = 18_600 * DAY  # 00:00 UTC of some day
    c = np.zeros((n, 6))
    c[:, 0] = last_ts - (n - 1 - np.arange(n)) * MIN
    close = 100 + np.cumsum(rng.randn(n)) * 0.1
    open_ = np.concatenate(([close[0]], close[:-1]))
    c[:, 1], c[:, 2] = open_, close
    c[:, 3] = np.maximum(open_, close) + 0.05
    c[:, 4] = np.minimum(open_, close) - 0.05
    c[:, 5] = rng.rand(n) * 10 + 1
    # the no-trade candle: nothing traded, price stays at the previous close
    c[-1, 1:5] = c[-2, 2]
    c[-1, 5] = 0.0
    return c


bad = []
for n in (100, 240, 241, 400):
    c = candles_ending_at_day_open(n)
    seq = ta.vwap(c, sequential=True)
    single = ta.vwap(c, sequential=False)
    window_seq = ta.vwap(c[-240:], sequential=True)
    print(f'n={n}: len(seq)={len(seq)}  seq[-1]={seq[-1]!r}  seq(last 240)[-1]={window_seq[-1]!r}  '
          f'non-sequential={single!r}')
    reference = window_seq[-1]
    same = (single is not None) and (
        (np.isnan(reference) and np.isnan(single)) or reference == single)
    if not same:
        bad.append(n)

# what a strategy sees
c = candles_ending_at_day_open(100)
try:
    print('close > vwap, sequential series :', c[-1, 2] > ta.vwap(c, sequential=True)[-1])
    print('close > vwap, single value      :', c[-1, 2] > ta.vwap(c))
except TypeError as e:
    print('close > vwap, single value      : TypeError:', e)

# the same idiom ("return None if np.isnan(res[-1])") is reachable in cfo on a volume source
c2 = candles_ending_at_day_open(100)
c2[-20:, 5] = 0.0  # 20 no-trade candles at the end
print("cfo(source_type='volume'): seq[-1] =", ta.cfo(c2, source_type='volume', sequential=True)[-1],
      ' single =', ta.cfo(c2, source_type='volume'))

print()
print('Property C14 requires: the last entry of the sequential result equals the non-sequential result '
      '(and, for n > 240, the non-sequential result equals sequential(last 240)[-1]). '
      'The series ends in NaN, the single value is None (a different type: comparisons and arithmetic raise).')
if bad:
    print(f'FAIL: vwap(sequential=False) returns None while vwap(sequential=True)[-1] is NaN when the current '
          f'anchor period has traded no volume yet (n in {bad})')
    sys.exit(1)
print('OK')
