"""
C14 finding 2: srsi(sequential=False) raises IndexError on an input of exactly
period + period_stoch - 1 candles, while srsi(sequential=True) on the same input returns a
well-formed all-NaN series (one entry per candle).

This is NOT the known out-of-bounds read inside the numba kernel for inputs shorter than the period:
here every kernel runs on valid (possibly empty) arrays; the exception is the plain Python
`fast_k[-1]` on an empty array in the non-sequential branch. Deterministic.

Run:  cd /tmp/wt/pc14 && PYTHONPATH=/tmp/wt/pc14 /venv/bin/python /tmp/wt/pc14.out/finding_2.py
"""
import sys
import warnings
import numpy as np

warnings.filterwarnings('ignore')
import jesse.indicators as ta


def rand_candles(n: int, seed: int = 1) -> np.ndarray:
    rng = np.random.RandomState(seed)
    c = np.zeros((n, 6))
    c[:, 0] = 1_600_000_000_000 + np.arange(n) * 60_000
    close = 100 + np.cumsum(rng.randn(n))
    open_ = np.concatenate(([close[0]], close[:-1]))
    c[:, 1], c[:, 2] = open_, close
    c[:, 3] = np.maximum(open_, close) + rng.rand(n)
    c[:, 4] = np.minimum(open_, close) - rng.rand(n)
    c[:, 5] = rng.rand(n) * 100 + 1
    return c


def run(n, **kw):
    c = rand_candles(n)
    # reference required by the property: sequential result on the (trailing warm-up window of the) input
    ref = ta.srsi(c[-240:], sequential=True, **kw)
    full = ta.srsi(c, sequential=True, **kw)
    try:
        single = ta.srsi(c, sequential=False, **kw)
        exc = None
    except Exception as e:  # noqa
        single, exc = None, f'{type(e).__name__}: {e}'
    print(f'n={n} {kw or "(defaults: period=14, period_stoch=14)"}')
    print(f'   sequential    : len(k)={len(full.k)}, len(d)={len(full.d)}, k[-1]={ref.k[-1]}, d[-1]={ref.d[-1]}')
    print(f'   non-sequential: {single if exc is None else "raises " + exc}')
    return exc


failures = []
# defaults: 14 + 14 - 1 = 27 candles.  28 candles work in both modes.
for n in (27, 28):
    if run(n):
        failures.append(f'n={n} defaults')
# non-default periods
for p, ps in ((5, 5), (10, 3), (3, 20)):
    if run(p + ps - 1, period=p, period_stoch=ps):
        failures.append(f'n={p + ps - 1} period={p} period_stoch={ps}')
# long input: the non-sequential call slices to the 240-candle warm-up window, 120 + 121 - 1 = 240
if run(300, period=120, period_stoch=121):
    failures.append('n=300 period=120 period_stoch=121')

print()
print('Property C14 requires: the non-sequential result equals the last entry of the sequential result '
      '(NaN here) for every input length; instead the non-sequential call raises.')
if failures:
    print('FAIL: srsi(sequential=False) raises IndexError when the (sliced) input has exactly '
          'period + period_stoch - 1 candles although srsi(sequential=True) returns a NaN series: '
          + '; '.join(failures))
    sys.exit(1)
print('OK')
