"""
C14 finding 3: sar(sequential=True) on a one-candle input returns a bare numpy float (0-d) instead of a
series with one entry per input candle.  (Same kind of defect as the already fixed
"adx(sequential=True) returns a bare float instead of a series on short inputs".)

A strategy sees a one-candle history at the first candle of a session without warm-up candles.

Run:  cd /tmp/wt/pc14 && PYTHONPATH=/tmp/wt/pc14 /venv/bin/python /tmp/wt/pc14.out/finding_3.py
"""
import sys
import warnings
import numpy as np

warnings.filterwarnings('ignore')
import jesse.indicators as ta


def rand_candles(n: int, seed: int = 1) -> np.ndarray:
    rng = np.random.RandomState(seed)
    c = np.zeros((n, 6))
    c[:, 0] = 1_600_000_000_000 + np.arange(n) * 60_000
    close = 100 + np.cumsum(rng.randn(n))
    open_ = np.concatenate(([close[0]], close[:-1]))
    c[:, 1], c[:, 2] = open_, close
    c[:, 3] = np.maximum(open_, close) + rng.rand(n)
    c[:, 4] = np.minimum(open_, close) - rng.rand(n)
    c[:, 5] = rng.rand(n) * 100 + 1
    return c


bad = []
for n in (1, 2, 3):
    c = rand_candles(n)
    seq = ta.sar(c, sequential=True)
    single = ta.sar(c, sequential=False)
    shape = np.shape(seq)
    print(f'n={n}: sar(sequential=True) -> type={type(seq).__name__}, shape={shape}, value={seq!r};   '
          f'sar(sequential=False) -> {single!r}')
    if shape != (n,):
        bad.append(n)

# the other single-series trend indicators return a 1-entry series for the same input, e.g.
c1 = rand_candles(1)
for name in ('ema', 'atr', 'adx', 'supersmoother'):
    r = getattr(ta, name)(c1, sequential=True)
    print(f'   for comparison {name}(sequential=True) on 1 candle -> shape {np.shape(r)}')

# what user code that follows the documented contract runs into
try:
    ta.sar(c1, sequential=True)[-1]
except Exception as e:  # noqa
    print('   sar(one_candle, sequential=True)[-1] raises', type(e).__name__ + ':', e)

print()
print('Property C14 requires: the sequential result has exactly one entry per input candle '
      '(quantified over input lengths below the warm-up window).')
if bad:
    print(f'FAIL: sar(sequential=True) returns a 0-d scalar instead of a series of length n for n in {bad} '
          f'(early "return low[-1]" ignores the sequential flag)')
    sys.exit(1)
print('OK')
