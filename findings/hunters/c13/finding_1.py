"""C13 finding 1: rma (and dx, which is built on it) is not causal.
rma_fast() reads newseries[i - 1] at i == 0, i.e. newseries[-1] = the LAST input
element (negative index wrap-around inside the numba loop), and seeds the whole
recursive series from it.
Run:  cd /tmp/wt/hc13 && PYTHONPATH=/tmp/wt/hc13 /venv/bin/python /tmp/wt/hc13.out/finding_1.py
"""
import sys, warnings
warnings.filterwarnings('ignore')
import numpy as np
import jesse.indicators as ta


def make_candles(close, seed=0):
    rng = np.random.RandomState(seed)
    close = np.asarray(close, dtype=float)
    n = len(close)
    o = np.roll(close, 1); o[0] = close[0]
    h = np.maximum(o, close) + rng.uniform(0.1, 1.0, n)
    l = np.minimum(o, close) - rng.uniform(0.1, 1.0, n)
    v = rng.uniform(10, 100, n)
    ts = 1_600_000_000_000 + np.arange(n) * 60_000
    return np.column_stack([ts, o, close, h, l, v])


failed = False

# --- hand-written minimal case -------------------------------------------
close = [10.0, 20.0, 30.0, 40.0, 50.0, 1000.0]
full = make_candles(close)
prefix = full[:5]                      # same first 5 candles, last one dropped
s_full = ta.rma(full, length=2, sequential=True)
s_pref = ta.rma(prefix, length=2, sequential=True)
print('closes               :', close)
print('rma(len=2) on full   :', np.round(s_full, 4))
print('rma(len=2) on prefix :', np.round(s_pref, 4))
print('index 0: full=%.4f prefix=%.4f  (0.5*10 + 0.5*<last close>: 505 vs 30)' % (s_full[0], s_pref[0]))
if not np.allclose(s_full[:5], s_pref, equal_nan=True):
    failed = True

# --- random walk, default parameters, rma and dx -------------------------
rng = np.random.RandomState(7)
close = 100 + np.cumsum(rng.randn(300))
full = make_candles(close, 1)
for p in (299, 200, 50):
    a = ta.rma(full, sequential=True)[:p]
    b = ta.rma(full[:p], sequential=True)
    nbad = int((~np.isclose(a, b, rtol=1e-9, equal_nan=True)).sum())
    print('rma default, prefix %3d: %3d of %3d positions differ, max |diff| = %.4f'
          % (p, nbad, p, np.nanmax(np.abs(a - b))))
    failed |= nbad > 0
    F = ta.dx(full, sequential=True)
    P = ta.dx(full[:p], sequential=True)
    for f in F._fields:
        a = getattr(F, f)[:p]; b = getattr(P, f)
        nbad = int((~np.isclose(a, b, rtol=1e-9, equal_nan=True)).sum())
        print('dx.%-8s prefix %3d: %3d of %3d positions differ, max |diff| = %.4f'
              % (f, p, nbad, p, np.nanmax(np.abs(a - b))))
        failed |= nbad > 0

print('\nC13 requires: series(prefix)[i] == series(full)[i] for every i < len(prefix).')
if failed:
    print('FAIL: rma(sequential=True) seeds value 0 from the LAST input element (newseries[-1]), so every '
          'early value of rma and of dx (adx, plusDI, minusDI) changes when later candles are appended.')
    sys.exit(1)
print('PASS: no violation observed')
