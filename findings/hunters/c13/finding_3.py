"""C13 finding 3: mab (Moving Average Bands) computes ONE deviation from the last
`fast_period` elements and applies it to the whole upper/lower band series.
Run:  cd /tmp/wt/hc13 && PYTHONPATH=/tmp/wt/hc13 /venv/bin/python /tmp/wt/hc13.out/finding_3.py
"""
import sys, warnings
warnings.filterwarnings('ignore')
import numpy as np
import jesse.indicators as ta


def make_candles(close, seed=0):
    rng = np.random.RandomState(seed)
    close = np.asarray(close, dtype=float)
    n = len(close)
    o = np.roll(close, 1); o[0] = close[0]
    h = np.maximum(o, close) + rng.uniform(0.1, 1.0, n)
    l = np.minimum(o, close) - rng.uniform(0.1, 1.0, n)
    v = rng.uniform(10, 100, n)
    ts = 1_600_000_000_000 + np.arange(n) * 60_000
    return np.column_stack([ts, o, close, h, l, v])


failed = False

# --- structured: 100 flat candles, then a spike in the last 5 candles ------
close = np.full(105, 100.0)
close[100:] = [110, 120, 130, 140, 150]
full = make_candles(close)
F = ta.mab(full, fast_period=3, slow_period=10, sequential=True)
P = ta.mab(full[:100], fast_period=3, slow_period=10, sequential=True)
i = 50   # deep inside the flat region, 50 candles before the spike
print('flat 100 then spike; fast=3 slow=10; index %d (price flat at 100 for 50 candles before AND after):' % i)
print('  upperband full=%.4f prefix=%.4f   lowerband full=%.4f prefix=%.4f'
      % (F.upperband[i], P.upperband[i], F.lowerband[i], P.lowerband[i]))
for f in F._fields:
    if not np.allclose(getattr(F, f)[:100], getattr(P, f), equal_nan=True):
        failed = True

# --- random walks, default parameters --------------------------------------
for seed in (1, 2, 3):
    rng = np.random.RandomState(seed)
    full = make_candles(100 + np.cumsum(rng.randn(300)), seed)
    F = ta.mab(full, sequential=True)
    for p in (299, 200, 80):
        P = ta.mab(full[:p], sequential=True)
        for f in F._fields:
            a = getattr(F, f)[:p]; b = getattr(P, f)
            bad = ~np.isclose(a, b, rtol=1e-9, equal_nan=True)
            if bad.any():
                failed = True
                print('seed %d prefix %3d %-10s: %3d of %3d positions differ, max |diff| = %.4f'
                      % (seed, p, f, int(bad.sum()), p, np.nanmax(np.abs(a - b))))

print('\nC13 requires: every field of mab(prefix) equals the same positions of mab(full).')
if failed:
    print('FAIL: mab(sequential=True) derives a single deviation from the LAST fast_period elements of the input '
          'and adds it to every position, so all upperband/lowerband values depend on the final candles.')
    sys.exit(1)
print('PASS: no violation observed')
