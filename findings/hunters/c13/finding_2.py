"""C13 finding 2: er (Kaufman Efficiency Ratio) uses a global normaliser.
`volatility = swv.sum()` sums the sliding windows of |diff| over the WHOLE input
(a scalar) instead of per window (axis=1), so every value is divided by a number
that grows with the input length.
Run:  cd /tmp/wt/hc13 && PYTHONPATH=/tmp/wt/hc13 /venv/bin/python /tmp/wt/hc13.out/finding_2.py
"""
import sys, warnings
warnings.filterwarnings('ignore')
import numpy as np
import jesse.indicators as ta


def make_candles(close, seed=0):
    rng = np.random.RandomState(seed)
    close = np.asarray(close, dtype=float)
    n = len(close)
    o = np.roll(close, 1); o[0] = close[0]
    h = np.maximum(o, close) + rng.uniform(0.1, 1.0, n)
    l = np.minimum(o, close) - rng.uniform(0.1, 1.0, n)
    v = rng.uniform(10, 100, n)
    ts = 1_600_000_000_000 + np.arange(n) * 60_000
    return np.column_stack([ts, o, close, h, l, v])


failed = False

# --- hand-written zig-zag -----------------------------------------------------
close = [10.0, 12, 11, 15, 14, 18, 13, 19, 17, 22, 20, 30]
full = make_candles(close)
e_full = ta.er(full, period=3, sequential=True)
e_pref = ta.er(full[:8], period=3, sequential=True)
print('closes', close, 'period=3')
print('er on 12 candles        :', np.round(e_full, 5))
print('er on first 8 candles   :', np.round(e_pref, 5))
if not np.allclose(e_full[:8], e_pref, equal_nan=True):
    failed = True

# --- random walks, default parameters, several prefix lengths --------------
for seed in (1, 2, 3):
    rng = np.random.RandomState(seed)
    close = 100 + np.cumsum(rng.randn(250))
    full = make_candles(close, seed)
    s_full = ta.er(full, sequential=True)
    for p in (249, 100, 20):
        s_pref = ta.er(full[:p], sequential=True)
        bad = ~np.isclose(s_full[:p], s_pref, rtol=1e-9, equal_nan=True)
        i = int(np.where(bad)[0][0]) if bad.any() else -1
        print('seed %d prefix %3d: %3d of %3d positions differ; first at i=%d full=%.6f prefix=%.6f'
              % (seed, p, int(bad.sum()), p, i, s_full[i], s_pref[i]))
        failed |= bool(bad.any())

print('\nC13 requires: er(prefix)[i] == er(full)[i] for every i < len(prefix).')
if failed:
    print('FAIL: er(sequential=True) divides every value by the sum of ALL sliding-window volatilities of the '
          'whole input, so each value shrinks as more candles are appended (depends on future candles).')
    sys.exit(1)
print('PASS: no violation observed')
