"""C13: further causal violations beyond finding_1..3 (same prefix-vs-full check).
Run:  cd /tmp/wt/hc13 && PYTHONPATH=/tmp/wt/hc13 /venv/bin/python /tmp/wt/hc13.out/additional_violations.py
"""
import sys, warnings
warnings.filterwarnings('ignore')
import numpy as np
import jesse.indicators as ta


def make_candles(n, seed):
    rng = np.random.RandomState(seed)
    close = 1000 + np.cumsum(rng.randn(n))
    o = np.roll(close, 1); o[0] = close[0]
    h = np.maximum(o, close) + rng.uniform(0.1, 1.0, n)
    l = np.minimum(o, close) - rng.uniform(0.1, 1.0, n)
    v = rng.uniform(10, 100, n)
    ts = 1_600_000_000_000 + np.arange(n) * 60_000
    return np.column_stack([ts, o, close, h, l, v])


def fields(r):
    return {f: np.asarray(getattr(r, f), float) for f in r._fields} if hasattr(r, '_fields') else {'value': np.asarray(r, float)}


def compare(label, fn, full, p, **kw):
    F = fields(fn(full, sequential=True, **kw)); P = fields(fn(full[:p], sequential=True, **kw))
    any_bad = False
    for f in F:
        a, b = F[f][:p], P[f]
        bad = ~np.isclose(a, b, rtol=1e-9, atol=1e-12, equal_nan=True)
        if bad.any():
            any_bad = True
            i = int(np.where(bad)[0][0])
            print('  %-34s %-12s n=%d prefix=%d: %d positions differ (first i=%d: full=%r prefix=%r)'
                  % (label, f, len(full), p, int(bad.sum()), i, float(a[i]), float(b[i])))
    if not any_bad:
        print('  %-34s ok' % label)
    return any_bad


c = make_candles(300, 11)
res = {}
print('negative-index wrap-around at i=0 inside numba loops:')
res['lrsi'] = compare('lrsi (l0[i-1] at i=0)', ta.lrsi, c, 200)
res['emd'] = compare('emd (price[i-2], peak[i-1] at i<2)', ta.emd, c, 200)
print('negative-index wrap-around for legal non-default parameters (sed_std < vis_std):')
res['damiani'] = compare('damiani_volatmeter sed_std=10', ta.damiani_volatmeter, c, 200, vis_std=20, sed_std=10)
print('length-dependent scaling: (1-alpha)**(n-1) under/overflows, whole series becomes inf/NaN:')
big = make_candles(3400, 12)
res['smma'] = compare('smma default period=5', ta.smma, big, 300)
res['gatorosc'] = compare('gatorosc default', ta.gatorosc, big, 300)
print('smma(big)[:3] =', ta.smma(big, sequential=True)[:3], ' smma(big[:300])[:3] =', ta.smma(big[:300], sequential=True)[:3])

bad = [k for k, v in res.items() if v]
print('\nC13 requires every field computed on a prefix to equal the prefix of the field computed on the full input.')
if bad:
    print('FAIL: additional non-causal sequential indicators: ' + ', '.join(bad))
    sys.exit(1)
print('PASS')
