"""
C12 finding 1: the fast simulator prunes the active-order list only inside chunks that have a fill
candidate (and after the strategies have run), the normal simulator after EVERY minute.

A MARKET entry submitted at a candle close is executed by _execute_market_orders() AFTER the pruning of
that minute / chunk. In the normal simulator it is pruned one minute later; in the fast simulator the next
chunk has no resting order in range, so the per-minute loop (the only place where the repair
"prune at every new minute of the chunk" lives) is skipped and the strategy's next cycle still finds the
executed entry in self.entry_orders. A scale-in strategy ("if not self.entry_orders: place the next safety
buy") therefore acts one candle later in fast mode -> different executed orders, trades and balances.

Single symbol, 5m route, no data routes, futures, no liquidation, exactly one resting fill in the session.
run: cd /tmp/wt/kc12 && PYTHONPATH=/tmp/wt/kc12 /venv/bin/python /tmp/wt/kc12.out/finding_1.py
"""
import sys, warnings
warnings.filterwarnings('ignore')
import numpy as np
import jesse.helpers as jh
from jesse.strategies import Strategy
from jesse.research.backtest import _isolated_backtest
from jesse.models import Order
from jesse.store import store
from jesse.services import selectors
import jesse.modes.backtest_mode as bm

T0 = 1609459200000  # 2021-01-01T00:00:00Z
EX, SYM = 'Binance Perpetual Futures', 'BTC-USDT'
SEEN = []


class ScaleIn(Strategy):
    """market entry; as long as no entry order is listed for the open position, place ONE safety buy 1.0 below"""
    def should_long(self):
        return self.index == 1

    def go_long(self):
        self.buy = 1, self.price

    def update_position(self):
        SEEN.append((int((self.time - T0) / 60000), len(self.entry_orders)))
        if not self.entry_orders and self.increased_count < 2:
            self.buy = 1, self.price - 1.0


def candles():
    closes = [100] * 10 + [99.5] * 5 + [98.2] * 5 + [99.5] * 10 + [100] * 10   # 40 minutes = 8 candles of 5m
    arr, p = [], 100.0
    for i, c in enumerate(closes):
        arr.append([T0 + i * 60000, p, c, max(p, c), min(p, c), 10.0])
        p = c
    return np.array(arr, dtype=float)


def run(fast):
    del SEEN[:]
    out = {'orders': []}
    orig_execute, orig_gen = Order.execute, bm._generate_outputs

    def exec_wrap(self, silent=False):
        if not (self.is_canceled or self.is_executed):
            out['orders'].append((self.side, self.type, float(self.qty), float(self.price),
                                  int((store.app.time - T0) / 60000)))
        return orig_execute(self, silent)

    def gen_wrap(*a, **k):   # the session is over here, the store has not been reset yet
        out['trades'] = [(t.type, round(t.qty, 6), round(t.entry_price, 6), round(t.exit_price, 6), round(t.pnl, 6))
                         for t in store.completed_trades.trades]
        out['balance'] = round(float(selectors.get_exchange(EX).wallet_balance), 6)
        out['liquidations'] = store.app.total_liquidations
        return orig_gen(*a, **k)

    Order.execute, bm._generate_outputs = exec_wrap, gen_wrap
    try:
        _isolated_backtest(
            {'starting_balance': 10000, 'fee': 0.001, 'type': 'futures', 'futures_leverage': 2,
             'futures_leverage_mode': 'cross', 'exchange': EX, 'warm_up_candles': 0},
            [{'exchange': EX, 'strategy': ScaleIn, 'symbol': SYM, 'timeframe': '5m'}], [],
            {jh.key(EX, SYM): {'exchange': EX, 'symbol': SYM, 'candles': candles()}},
            fast_mode=fast)
    finally:
        Order.execute, bm._generate_outputs = orig_execute, orig_gen
    out['seen'] = list(SEEN)
    return out


normal, fast = run(False), run(True)
for name, r in (('normal', normal), ('fast  ', fast)):
    print(f'--- {name} simulator')
    print('  executed orders (side, type, qty, price, fill minute):', r['orders'])
    print('  closed trades (type, qty, entry, exit, pnl):', r['trades'])
    print('  final wallet balance:', r['balance'], ' liquidations:', r['liquidations'])
    print('  (minute, len(self.entry_orders)) seen by update_position():', r['seen'])

resting = [o for o in normal['orders'] if o[1] != 'MARKET']
print('\nscope check (normal run): resting fills =', len(resting), '-> at most one per 5m candle; liquidations =',
      normal['liquidations'])
print('property C12 requires: same executed orders, closed trades and final balances in both simulators')
same = all(normal[k] == fast[k] for k in ('orders', 'trades', 'balance'))
if same:
    print('PASS: both simulators agree')
    sys.exit(0)
print('FAIL: after a MARKET entry filled at a candle close the fast simulator still lists the executed order in '
      'self.entry_orders during the next cycle (no per-minute pruning in a chunk without fill candidates), so a '
      'scale-in strategy trades differently: orders, trades and final balance differ from the normal simulator')
sys.exit(1)
