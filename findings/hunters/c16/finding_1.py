"""C16 finding 1: max_drawdown (and calmar_ratio) ignore the starting balance as a peak.

metrics.max_drawdown() works on pct_change() of the daily balances, whose first row is NaN.
(returns + 1).cumprod() skips that NaN, so the price series it builds starts at the SECOND
sample and the initial equity is never a candidate peak. A decline that starts on day one is
therefore (partly or wholly) invisible.

Run:  cd /tmp/wt/hc16 && PYTHONPATH=/tmp/wt/hc16 /venv/bin/python /tmp/wt/hc16.out/finding_1.py
"""
import warnings; warnings.filterwarnings('ignore')
import sys
import numpy as np
import jesse.helpers as jh
from jesse import research
from jesse.strategies import Strategy


class HoldLong(Strategy):
    # buys 50 units at the first candle and holds until the end of the session
    def should_long(self): return self.index == 0
    def go_long(self): self.buy = 50, self.price
    def should_cancel_entry(self): return False


def candles(prices, start=1609459200000):
    out, prev = [], prices[0]
    for i, p in enumerate(prices):
        out.append([start + i * 60000, prev, p, max(prev, p), min(prev, p), 10]); prev = p
    return np.array(out, dtype=float)


DAY = 1440
# day 1: 100 -> 80 (equity 10000 -> 9000), day 2: 80 -> 82, day 3: 82 -> 81, day 4: 81 -> 83
prices = np.concatenate([np.linspace(100, 80, DAY), np.linspace(80, 82, DAY),
                         np.linspace(82, 81, DAY), np.linspace(81, 83, DAY)])
ex, sym = 'Fake Exchange', 'BTC-USDT'
config = {'starting_balance': 10_000, 'fee': 0, 'type': 'futures', 'futures_leverage': 1,
          'futures_leverage_mode': 'cross', 'exchange': ex, 'warm_up_candles': 0}
routes = [{'exchange': ex, 'strategy': HoldLong, 'symbol': sym, 'timeframe': '1m'}]
cd = {jh.key(ex, sym): {'exchange': ex, 'symbol': sym, 'candles': candles(prices)}}

fail = False
for fast in (False, True):
    res = research.backtest(config, routes, [], cd, generate_equity_curve=True, fast_mode=fast)
    eq = np.array([p['value'] for p in res['equity_curve'][0]['data']])
    m = res['metrics']
    peak = np.maximum.accumulate(eq)
    true_dd = float((eq / peak - 1).min() * 100)            # standard definition, in percent
    days = len(eq) - 1
    cagr = (eq[-1] / eq[0]) ** (365 / days) - 1
    true_calmar = cagr / abs(true_dd / 100)
    print(f'fast_mode={fast}')
    print('  daily equity series      :', [round(float(x), 2) for x in eq])
    print(f'  reported max_drawdown    : {m["max_drawdown"]:.4f} %')
    print(f'  standard max drawdown    : {true_dd:.4f} %   (peak {peak[0]:.0f} -> trough {eq.min():.2f})')
    print(f'  reported calmar_ratio    : {m["calmar_ratio"]:.4f}')
    print(f'  CAGR / |max drawdown|    : {true_calmar:.4f}')
    if abs(m['max_drawdown'] - true_dd) > 1e-6:
        fail = True

# the same thing straight on the metric function: a pure loss that is reported as "no drawdown"
import pandas as pd
from jesse.services import metrics
bal = [10000, 9000, 9000, 9000]
r = pd.DataFrame(bal, index=pd.date_range('2021-01-01', periods=len(bal))).pct_change(1)
direct = float(metrics.max_drawdown(r).iloc[0].iloc[0]) * 100
print(f'metrics.max_drawdown on balances {bal}: {direct:.4f} %  (standard: -10 %)')
if abs(direct - (-10.0)) > 1e-9:
    fail = True

print('PROPERTY C16 requires: "Maximum drawdown ... Calmar ... equal their standard definitions on '
      'the daily equity returns"; the equity series starts at the starting balance, so the starting '
      'balance is a peak.')
if fail:
    print('FAIL: max_drawdown (and calmar_ratio) never treat the starting balance as a peak, so a decline '
          'from the initial equity is under-reported (here -0.55 % is reported instead of -10 %, and 0 % for a pure loss).')
    sys.exit(1)
print('OK')
