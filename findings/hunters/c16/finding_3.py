"""C16 finding 3: sortino_ratio divides the downside sum of squares by (number of returns + 1).

metrics.trades() builds daily_return = DataFrame(daily_balance).pct_change(1): N+1 balances give N
returns plus a leading NaN row. sortino_ratio() computes
    downside = sqrt( sum(r[r<0]**2) / len(returns) )        # len() counts the NaN row -> N+1
    res      = returns.mean() / downside * sqrt(365)        # mean() skips the NaN row  -> N
so numerator and denominator use different sample sizes and the result is the standard Sortino
ratio multiplied by sqrt((N+1)/N): +22 % for a 2-day session, +8 % for 6 days, +1.7 % for 30 days.
(Sharpe, computed two lines above on the same frame, uses N for both and matches the definition.)

Run:  cd /tmp/wt/hc16 && PYTHONPATH=/tmp/wt/hc16 /venv/bin/python /tmp/wt/hc16.out/finding_3.py
"""
import warnings; warnings.filterwarnings('ignore')
import sys, math
import numpy as np
import jesse.helpers as jh
from jesse import research
from jesse.strategies import Strategy


class HoldLong(Strategy):
    def should_long(self): return self.index == 0
    def go_long(self): self.buy = 50, self.price
    def should_cancel_entry(self): return False


def candles(prices, start=1609459200000):
    out, prev = [], prices[0]
    for i, p in enumerate(prices):
        out.append([start + i * 60000, prev, p, max(prev, p), min(prev, p), 10]); prev = p
    return np.array(out, dtype=float)


def standard(eq):
    r = eq[1:] / eq[:-1] - 1                                   # the N daily equity returns
    sharpe = r.mean() / r.std(ddof=1) * math.sqrt(365)
    downside = math.sqrt((np.minimum(r, 0) ** 2).sum() / len(r))   # downside deviation, target 0
    return len(r), sharpe, r.mean() / downside * math.sqrt(365)


ex, sym = 'Fake Exchange', 'BTC-USDT'
config = {'starting_balance': 10_000, 'fee': 0, 'type': 'futures', 'futures_leverage': 1,
          'futures_leverage_mode': 'cross', 'exchange': ex, 'warm_up_candles': 0}
routes = [{'exchange': ex, 'strategy': HoldLong, 'symbol': sym, 'timeframe': '1m'}]
levels = [100, 104, 101, 103, 99, 102, 106]                  # price at the end of each day
fail = False
for days in (2, 6):
    prices = np.concatenate([np.linspace(levels[d], levels[d + 1], 1440) for d in range(days)])
    cd = {jh.key(ex, sym): {'exchange': ex, 'symbol': sym, 'candles': candles(prices)}}
    res = research.backtest(config, routes, [], cd, generate_equity_curve=True)
    eq = np.array([p['value'] for p in res['equity_curve'][0]['data']], dtype=float)
    n, sharpe, sortino = standard(eq)
    m = res['metrics']
    print(f'{days}-day session, equity: {[round(float(x), 1) for x in eq]}  ({n} daily returns)')
    print(f'   sharpe_ratio   reported {m["sharpe_ratio"]:.6f}   standard {sharpe:.6f}')
    print(f'   sortino_ratio  reported {m["sortino_ratio"]:.6f}   standard {sortino:.6f}   '
          f'ratio {m["sortino_ratio"] / sortino:.6f}  (sqrt(({n}+1)/{n}) = {math.sqrt((n + 1) / n):.6f})')
    assert abs(m['sharpe_ratio'] - sharpe) < 1e-6 * abs(sharpe), 'sharpe is expected to match'
    if abs(m['sortino_ratio'] - sortino) > 1e-6 * abs(sortino):
        fail = True

print('PROPERTY C16 requires: "Sharpe, Sortino ... equal their standard definitions on the daily equity '
      'returns (365-day year)": mean return / sqrt(mean of squared negative returns) * sqrt(365), all over the same N returns.')
if fail:
    print('FAIL: sortino_ratio counts the NaN first row of pct_change() in its downside-deviation denominator, '
          'so it is the standard Sortino ratio inflated by sqrt((N+1)/N).')
    sys.exit(1)
print('OK')
