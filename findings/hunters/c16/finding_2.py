"""C16 finding 2: in fast mode a single 3D (or 1W) route gets one equity sample per CHUNK, not per day.

_skip_simulator iterates `for i in range(0, length, candles_step)` and stores a daily balance only
`if i != 0 and i % 1440 == 0`. candles_step is the gcd of the route timeframes, so with one 3D route
it is 4320: every iteration stores ONE sample although it advanced THREE days (1W: seven days).
metrics.trades() then treats the samples as consecutive days (pd.date_range(periods=len(...))), so
annual return, Sharpe, Sortino, Calmar, max drawdown are computed on a series with the wrong length
and the wrong day spacing. The step simulator (fast_mode=False) is correct on the same input.

Run:  cd /tmp/wt/hc16 && PYTHONPATH=/tmp/wt/hc16 /venv/bin/python /tmp/wt/hc16.out/finding_2.py
"""
import warnings; warnings.filterwarnings('ignore')
import sys
import numpy as np
import jesse.helpers as jh
from jesse import research
from jesse.strategies import Strategy


class LongSecondCandle(Strategy):
    # opens at the close of the first 3D candle, closes at the close of the second one
    def should_long(self): return self.index == 0
    def go_long(self): self.buy = 10, self.price
    def should_cancel_entry(self): return False
    def update_position(self):
        if self.index == 1:
            self.liquidate()


def candles(prices, start=1609459200000):
    out, prev = [], prices[0]
    for i, p in enumerate(prices):
        out.append([start + i * 60000, prev, p, max(prev, p), min(prev, p), 10]); prev = p
    return np.array(out, dtype=float)


DAYS = 9
prices = np.linspace(100, 118, DAYS * 1440)        # steady rise, 9 simulated days
ex, sym = 'Fake Exchange', 'BTC-USDT'
config = {'starting_balance': 10_000, 'fee': 0, 'type': 'futures', 'futures_leverage': 1,
          'futures_leverage_mode': 'cross', 'exchange': ex, 'warm_up_candles': 0}
routes = [{'exchange': ex, 'strategy': LongSecondCandle, 'symbol': sym, 'timeframe': '3D'}]
cd = {jh.key(ex, sym): {'exchange': ex, 'symbol': sym, 'candles': candles(prices)}}

out = {}
for fast in (False, True):
    res = research.backtest(config, routes, [], cd, generate_equity_curve=True, fast_mode=fast)
    eq = [float(p['value']) for p in res['equity_curve'][0]['data']]
    out[fast] = (eq, res['metrics'])
    print(f'fast_mode={fast}: {len(eq)} equity samples for {DAYS} simulated days')
    print('   equity series :', [round(x, 2) for x in eq])
    print('   annual_return : %.4f %%   sharpe_ratio: %.4f   trades: %d   net_profit: %.4f' % (
        res['metrics']['annual_return'], res['metrics']['sharpe_ratio'],
        res['metrics']['total'], res['metrics']['net_profit']))

expected = DAYS + 1
eq_fast, m_fast = out[True]
eq_step, m_step = out[False]
growth = eq_fast[-1] / eq_fast[0]
print(f'PROPERTY C16 requires: one sample per simulated day plus the final one = {expected} samples, and')
print(f'   annual return on a 365-day year = ({growth:.6f})^(365/{DAYS}) - 1 = {(growth ** (365 / DAYS) - 1) * 100:.4f} %')
print(f'   fast mode reports {m_fast["annual_return"]:.4f} % = ({growth:.6f})^(365/{len(eq_fast) - 1}) - 1, '
      f'i.e. it believes the session lasted {len(eq_fast) - 1} days')

if len(eq_fast) != expected or abs(m_fast['annual_return'] - m_step['annual_return']) > 1e-6:
    print(f'FAIL: fast_mode with a single 3D route stores {len(eq_fast)} equity samples for a {DAYS}-day session '
          f'(one per 3-day chunk) instead of {expected}, so the annualised metrics are computed on the wrong number of days.')
    sys.exit(1)
print('OK')
