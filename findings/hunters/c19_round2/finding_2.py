"""
C19 - a float declaration whose span (max - min) exceeds the largest double decodes the FIRST
letter into NaN (and every other letter into max).

convert_number() computes ((ord(gene) - 40) * (max - min)) / 79 + min. For min = -1e308 and
max = 1e308 (both ordinary finite doubles, a legal [min, max]) the span overflows to inf, so the
first letter gives 0 * inf = nan. The clamp added for the overshoot repair,
min(max(nan, h['min']), h['max']), lets the NaN through because every comparison with NaN is False.
This is a pathological declaration (nobody needs a 2e308-wide parameter); it is reported because
the property quantifies over every (min, max, type) declaration and NaN is neither in range nor
equal to min. A milder relative: for min=0, max=1e308 the product k*span overflows from k=2 on, so
78 of the 80 letters collapse onto max (in range and weakly monotone, hence not counted as a failure).
"""
import math
import sys
import warnings
warnings.filterwarnings('ignore')

import jesse.helpers as jh

ALPHABET = ''.join(chr(c) for c in range(40, 120))     # '(' .. 'w'
decl = [{'name': 'x', 'type': float, 'min': -1e308, 'max': 1e308, 'default': 0.0}]

values = [jh.dna_to_hp(decl, g)['x'] for g in ALPHABET]
print("declaration:", {k: decl[0][k] for k in ('type', 'min', 'max')})
print("decoded '(' (first letter):", values[0])
print("decoded ')' :", values[1])
print("decoded 'w' (last letter) :", values[-1])
print("distinct decoded values    :", len({repr(v) for v in values}))

mild = [jh.dna_to_hp([{'name': 'x', 'type': float, 'min': 0.0, 'max': 1e308}], g)['x'] for g in ALPHABET]
print("for [0, 1e308]: letters decoding to max:", sum(v == 1e308 for v in mild), "of 80 (info only)")

in_range = [decl[0]['min'] <= v <= decl[0]['max'] for v in values]
print()
print("property requires: every letter decodes inside [min, max]; the first letter decodes to min")
if math.isnan(values[0]) or not all(in_range) or values[0] != decl[0]['min']:
    print("FAIL: with min=-1e308, max=1e308 (span overflows to inf) the first letter '(' decodes to nan "
          "instead of min, and the range clamp does not catch it")
    sys.exit(1)
print("OK")
