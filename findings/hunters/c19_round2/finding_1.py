"""
C19 - a FLOAT hyperparameter decodes into a Python int for the last gene letter.

dna_to_hp() repairs the 1-ulp overshoot of the last letter with
    decoded_gene = min(max(decoded_gene, h['min']), h['max'])
which hands back the *declared bound object* itself whenever the clamp fires. A very common
declaration writes the maximum of a float parameter as an int literal and the minimum as a
fraction, e.g. {'type': float, 'min': 0.1, 'max': 1}. For such a declaration the letter 'w'
computes 1.0000000000000002, the clamp fires and the decoded value is the int 1 - while the
79 other letters give floats. The int then reaches the strategy as self.hp[...] through dna().
"""
import sys
import warnings
warnings.filterwarnings('ignore')

import jesse.helpers as jh
from jesse import research
from jesse.factories import candles_from_close_prices
from jesse.strategies import Strategy

ALPHABET = ''.join(chr(c) for c in range(40, 120))     # '(' .. 'w', the optimizer's 80 letters
DECL = [
    {'name': 'stop', 'type': float, 'min': 0.1, 'max': 1, 'default': 0.5},
    {'name': 'n', 'type': int, 'min': 2, 'max': 9, 'default': 3},
]

# 1) the decoder alone -------------------------------------------------------------------------
types = {g: type(jh.dna_to_hp(DECL, g + '(')['stop']) for g in ALPHABET}
non_float = {g: t.__name__ for g, t in types.items() if t is not float}
print("declaration          :", {k: DECL[0][k] for k in ('type', 'min', 'max')})
print("letters giving float :", sum(t is float for t in types.values()), "of 80")
print("letters NOT float    :", non_float)
print("decoded for 'v', 'w' :", repr(jh.dna_to_hp(DECL, 'v(')['stop']), repr(jh.dna_to_hp(DECL, 'w(')['stop']))

# how common is it? float params with a one-decimal min and an int-literal max
total = hit = 0
for a10 in range(1, 100):
    if a10 % 10 == 0:
        continue
    for b in range(a10 // 10 + 1, 101):
        total += 1
        v = jh.dna_to_hp([{'name': 'x', 'type': float, 'min': a10 / 10, 'max': b}], 'w')['x']
        hit += type(v) is not float
print(f"declarations (min=k/10, max=int<=100) whose last letter decodes to int: {hit} of {total}")

# 2) through a backtest, via the strategy's dna() -------------------------------------------------
seen = {}


class S(Strategy):
    def hyperparameters(self):
        return [dict(d) for d in DECL]

    def dna(self):
        return 'w('

    def before(self):
        if self.index == 0:
            seen['stop'] = self.hp['stop']
            seen['n'] = self.hp['n']

    def should_long(self):
        return False

    def should_cancel_entry(self):
        return False

    def go_long(self):
        pass


EX, SYM = 'Fake Exchange', 'FAKE-USDT'
cfg = {'starting_balance': 10_000, 'fee': 0, 'type': 'futures', 'futures_leverage': 2,
       'futures_leverage_mode': 'cross', 'exchange': EX, 'warm_up_candles': 0}
routes = [{'exchange': EX, 'strategy': S, 'symbol': SYM, 'timeframe': '1m'}]
candles = {jh.key(EX, SYM): {'exchange': EX, 'symbol': SYM,
                             'candles': candles_from_close_prices([100 + i for i in range(10)])}}
for fast in (False, True):
    seen.clear()
    research.backtest(cfg, routes, [], candles, fast_mode=fast)
    print(f"backtest fast_mode={fast}: self.hp['stop'] = {seen['stop']!r} ({type(seen['stop']).__name__}), "
          f"self.hp['n'] = {seen['n']!r} ({type(seen['n']).__name__})")

print()
print("property requires: every letter decodes a float declaration into a value OF THE DECLARED TYPE")
print("                   (only int parameters give integers), and the backtest exposes that value.")
if non_float or type(seen.get('stop')) is not float:
    print("FAIL: for {'type': float, 'min': 0.1, 'max': 1} the last letter 'w' decodes to the int 1 "
          "(the range clamp returns the declared bound object), and dna() hands that int to the strategy")
    sys.exit(1)
print("OK")
