"""
C16 finding 1: a stop-loss for the FULL size that fires after a partial take-profit (both submitted
through the standard self.take_profit / self.stop_loss API, i.e. reduce-only orders) is recorded in the
ClosedTrade with its full order qty although only the remaining half is filled.  The trade's exit
price / PnL / fee are therefore wrong and the reported net_profit, net_profit_percentage and fee
disagree with the equity series (and with finishing_balance - starting_balance) of the same report.

run:  cd /tmp/wt/gc16 && PYTHONPATH=/tmp/wt/gc16 /venv/bin/python /tmp/wt/gc16.out/finding_1.py
"""
import sys, warnings
warnings.filterwarnings('ignore')
import numpy as np
from jesse import research
from jesse.strategies import Strategy

EX, SYM, T0, FEE = 'Binance Perpetual Futures', 'BTC-USDT', 1609459200000, 0.001
TRADES = []


def candles(n=2881):
    # flat 100, up to 101.5 (candle 30), down to 98.5 (candle 80), flat afterwards
    px = [100.0] * 10 + list(np.linspace(100, 101.5, 21)[1:]) + list(np.linspace(101.5, 98.5, 51)[1:])
    px += [98.5] * (n - len(px))
    arr, prev = [], 100.0
    for i, p in enumerate(px):
        p = round(float(p), 4)
        arr.append([T0 + i * 60_000, prev, p, max(prev, p), min(prev, p), 10])
        prev = p
    return np.array(arr)


class PartialTpFullSl(Strategy):
    def should_long(self): return self.index == 5
    def should_short(self): return False
    def should_cancel_entry(self): return False
    def go_long(self): self.buy = 2, self.price                      # market buy 2 @ 100
    def on_open_position(self, order):
        self.take_profit = [(1, 101), (1, 103)]                      # half at 101, half at 103
        self.stop_loss = 2, 99                                       # full size at 99
    def terminate(self):
        for t in self.trades:
            TRADES.append((t.type, t.qty, t.entry_price, t.exit_price, t.pnl, t.fee,
                           [(o.side, o.qty, o.price) for o in t.orders]))


def run(fast):
    TRADES.clear()
    cfg = {'starting_balance': 10_000, 'fee': FEE, 'type': 'futures', 'futures_leverage': 2,
           'futures_leverage_mode': 'cross', 'exchange': EX, 'warm_up_candles': 0}
    routes = [{'exchange': EX, 'strategy': PartialTpFullSl, 'symbol': SYM, 'timeframe': '1m'}]
    cs = {f'{EX}-{SYM}': {'exchange': EX, 'symbol': SYM, 'candles': candles()}}
    res = research.backtest(cfg, routes, [], cs, generate_equity_curve=True, fast_mode=fast)
    return res['metrics'], [d['value'] for d in res['equity_curve'][0]['data']]


bad = False
for fast in (False, True):
    m, eq = run(fast)
    # what really happened: buy 2@100, sell 1@101, sell 1@99 (the rest of the position), fee on each fill
    true_fee = FEE * (2 * 100 + 1 * 101 + 1 * 99)
    true_net = (1 * 101 + 1 * 99 - 2 * 100) - true_fee
    print(f'--- fast_mode={fast}')
    print('trade as recorded (type, qty, entry, exit, PNL, fee, orders):')
    for t in TRADES: print('   ', t)
    print('equity series                        :', eq)
    print('equity change (last - first sample)  :', eq[-1] - eq[0], ' (open trades at the end:', m['total_open_trades'], ')')
    print('finishing_balance - starting_balance :', m['finishing_balance'] - m['starting_balance'])
    print('cash flows of the fills (independent): net', true_net, ' fee', true_fee)
    print('REPORTED net_profit                  :', m['net_profit'], ' net_profit_percentage', m['net_profit_percentage'])
    print('REPORTED fee                         :', m['fee'])
    if abs(m['net_profit'] - (eq[-1] - eq[0])) > 1e-6 or abs(m['fee'] - true_fee) > 1e-6:
        bad = True

print()
print('The property requires net profit = sum of trade PnL (= what the trades earned after fees), fee = sum of the')
print('trade fees, net profit % = net profit / starting balance, and an equity series that ends at the final portfolio')
print('value: with every position closed these must describe the same money (-0.4 here), but the report says -1.066.')
if bad:
    print('FAIL: an over-sized reduce-only exit (full-size stop-loss after a partial take-profit) is booked into the '
          'trade with its whole order qty, so net_profit/fee/net_profit_percentage contradict the equity series and the fees charged')
    sys.exit(1)
print('OK')
