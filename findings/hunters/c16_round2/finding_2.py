"""
C16 finding 2: an order that flips a futures position (Position._on_executed_order has an explicit
"close AND open on the opposite side" branch) is booked entirely into the trade that it closes; the
trade that it opens starts with NO entry order.  When that second trade closes its qty is 0 and its
entry price / PnL / fee are NaN.  The reported metrics then break their own identities:
total != winners + losers + break-even, net_profit and fee silently drop the NaN trade and disagree
with the equity series / finishing balance.

run:  cd /tmp/wt/gc16 && PYTHONPATH=/tmp/wt/gc16 /venv/bin/python /tmp/wt/gc16.out/finding_2.py
"""
import sys, math, warnings
warnings.filterwarnings('ignore')
import numpy as np
from jesse import research
from jesse.strategies import Strategy

EX, SYM, T0, FEE = 'Binance Perpetual Futures', 'BTC-USDT', 1609459200000, 0.001
TRADES = []


def candles(n=2881):
    # flat 100 (10 candles), up to 102 (candle 30), flat 102 (10 candles), down to 99 (candle 70), flat
    px = [100.0] * 10 + list(np.linspace(100, 102, 21)[1:]) + [102.0] * 10 + list(np.linspace(102, 99, 31)[1:])
    px += [99.0] * (n - len(px))
    arr, prev = [], 100.0
    for i, p in enumerate(px):
        p = round(float(p), 4)
        arr.append([T0 + i * 60_000, prev, p, max(prev, p), min(prev, p), 10])
        prev = p
    return np.array(arr)


class Flip(Strategy):
    def should_long(self): return self.index == 5
    def should_short(self): return False
    def should_cancel_entry(self): return False
    def go_long(self): self.buy = 1, self.price                      # long 1 @ 100
    def update_position(self):
        if self.index == 35 and self.is_long:
            self.broker.sell_at_market(3)                            # sell 3 @ 102: closes the long, opens short 2
        elif self.index == 90 and self.is_short:
            self.broker.buy_at_market(2)                             # buy 2 @ 99: closes the short
    def terminate(self):
        for t in self.trades:
            TRADES.append((t.type, float(t.qty), float(t.entry_price), float(t.exit_price), float(t.pnl), float(t.fee)))


cfg = {'starting_balance': 10_000, 'fee': FEE, 'type': 'futures', 'futures_leverage': 2,
       'futures_leverage_mode': 'cross', 'exchange': EX, 'warm_up_candles': 0}
routes = [{'exchange': EX, 'strategy': Flip, 'symbol': SYM, 'timeframe': '1m'}]
cs = {f'{EX}-{SYM}': {'exchange': EX, 'symbol': SYM, 'candles': candles()}}
res = research.backtest(cfg, routes, [], cs, generate_equity_curve=True)
m, eq = res['metrics'], [d['value'] for d in res['equity_curve'][0]['data']]

true_fee = FEE * (1 * 100 + 3 * 102 + 2 * 99)
true_net = 1 * (102 - 100) + 2 * (102 - 99) - true_fee
pnls = [t[4] for t in TRADES]
break_even = sum(1 for p in pnls if p == 0)
print('closed trades (type, qty, entry, exit, PNL, fee):')
for t in TRADES: print('   ', t)
print('equity series                        :', eq)
print('equity change / finishing - starting :', eq[-1] - eq[0], '/', m['finishing_balance'] - m['starting_balance'],
      ' (open trades at the end:', m['total_open_trades'], ')')
print('cash flows of the fills (independent): net', true_net, ' fee', true_fee)
print('REPORTED total', m['total'], ' winners', m['total_winning_trades'], ' losers', m['total_losing_trades'],
      ' break-even trades (PNL == 0):', break_even, ' win_rate', m['win_rate'])
print('REPORTED net_profit', m['net_profit'], ' gross_profit', m['gross_profit'], ' gross_loss', m['gross_loss'],
      ' python sum of trade PnL:', sum(pnls))
print('REPORTED fee', m['fee'], ' python sum of trade fees:', sum(t[5] for t in TRADES))
print('REPORTED longs', m['longs_count'], ' shorts', m['shorts_count'])
print()
print('The property requires total = winners + losers + break-even, net profit = sum of trade PnL, fee = sum of trade fees,')
print('and metrics that agree with the equity series (which ends at the final portfolio value).')
problems = []
if m['total'] != m['total_winning_trades'] + m['total_losing_trades'] + break_even:
    problems.append('total != winners + losers + break-even')
if any(math.isnan(p) for p in pnls):
    problems.append('a closed trade has qty 0 and NaN PnL/fee')
if abs(m['net_profit'] - (eq[-1] - eq[0])) > 1e-6:
    problems.append(f"net_profit {m['net_profit']:.4f} vs equity change {eq[-1] - eq[0]:.4f}")
if abs(m['fee'] - true_fee) > 1e-6:
    problems.append(f"fee {m['fee']:.4f} vs charged {true_fee:.4f}")
if problems:
    print('FAIL: after a position flip the opened trade has no entry order (qty 0, NaN PnL) and the metrics break: ' + '; '.join(problems))
    sys.exit(1)
print('OK')
