"""
C07 finding 2 (weaker than finding 1 - see the caveat): while an order of symbol A is executed in the
last minute of a window, the candles of A in a timeframe that is only ROUTED FOR ANOTHER SYMBOL miss
that window.

jesse keeps a candle series for every (routed symbol) x (considered timeframe): init_storage()
creates it, both simulators fill it at every window end, and get_candles() builds its forming
candle, so Strategy.get_candles(exchange, 'AAA-USDT', '15m') works without a data route for exactly
that pair.  But _update_all_routes_a_partial_candle() refreshes only the (symbol, timeframe) pairs
that appear literally in the routes.  When the order fills in the last minute of the 15m window the
1m count is a multiple of 15, get_candles() trusts the 15m storage, and the window is not there yet.
CAVEAT: the pair (AAA-USDT, 15m) is not itself a route; 15m is a route timeframe of BBB-USDT only.

Run:  cd /tmp/wt/hc07 && PYTHONPATH=/tmp/wt/hc07 /venv/bin/python /tmp/wt/hc07.out/finding_2.py
"""
import sys
import numpy as np
import jesse.helpers as jh
from jesse.strategies import Strategy
from jesse import research
from jesse.store import store

EX, A, B = 'Fake Exchange', 'AAA-USDT', 'BBB-USDT'
T0 = 1609459200000  # 2021-01-01T00:00:00Z - aligned to 5m and 15m
SEEN = []


def aggregate(m1, minutes):
    out, n = [], minutes * 60_000
    for w in sorted(set(m1[:, 0] // n)):
        g = m1[m1[:, 0] // n == w]
        out.append([w * n, g[0, 1], g[-1, 2], g[:, 3].max(), g[:, 4].min(), g[:, 5].sum()])
    return np.array(out)


class Trader(Strategy):
    def should_long(self): return self.index == 0
    def should_short(self): return False
    def should_cancel_entry(self): return False
    def go_long(self): self.buy = 1, 99.0                   # resting limit order, fills in minute 29

    def on_open_position(self, order):
        SEEN.append({tf: self.get_candles(EX, A, tf).copy() for tf in ('1m', '5m', '15m')})


class Idle(Strategy):
    def should_long(self): return False
    def should_short(self): return False
    def should_cancel_entry(self): return False
    def go_long(self): pass


def candles(prices_low):
    c = np.zeros((45, 6))
    prev = prices_low[0][0]
    for i, (cl, lo) in enumerate(prices_low):
        c[i] = [T0 + i * 60_000, prev, cl, max(prev, cl), min(prev, cl, lo), 1.0]
        prev = cl
    return c


def run(fast):
    a = candles([(100.0, 100.0)] * 29 + [(98.0, 98.0)] * 16)   # minute 29: 100 -> 98, crosses the limit at 99
    b = candles([(50.0, 50.0)] * 45)
    cfg = {'starting_balance': 10_000, 'fee': 0, 'type': 'futures', 'futures_leverage': 2,
           'futures_leverage_mode': 'cross', 'exchange': EX, 'warm_up_candles': 0}
    routes = [{'exchange': EX, 'strategy': Trader, 'symbol': A, 'timeframe': '5m'},
              {'exchange': EX, 'strategy': Idle, 'symbol': B, 'timeframe': '15m'}]
    SEEN.clear()
    research.backtest(cfg, routes, [], {jh.key(EX, A): {'exchange': EX, 'symbol': A, 'candles': a},
                                        jh.key(EX, B): {'exchange': EX, 'symbol': B, 'candles': b}}, fast_mode=fast)
    assert len(SEEN) == 1
    o, ok_all = SEEN[0], True
    print(f"--- {'fast' if fast else 'normal'} simulator: on_open_position of {A}, {len(o['1m'])} one-minute candles stored, "
          f"last (partial) 1m = {o['1m'][-1, 1:].tolist()}")
    for tf, m in (('5m', 5), ('15m', 15)):
        exp = aggregate(o['1m'], m)
        ok = o[tf].shape == exp.shape and np.allclose(o[tf], exp)
        ok_all &= ok
        print(f"    get_candles({A}, {tf}): window starts {((o[tf][:, 0] - T0) // 60_000).astype(int).tolist()} min, "
              f"last = {o[tf][-1, 1:].tolist() if len(o[tf]) else None}")
        print(f"    property requires        : window starts {((exp[:, 0] - T0) // 60_000).astype(int).tolist()} min, "
              f"last = {exp[-1, 1:].tolist()}  -> {'OK' if ok else 'VIOLATED'}")
    return ok_all


results = [run(False), run(True)]
if all(results):
    print('PASS')
    sys.exit(0)
print("FAIL: during an order execution in the last minute of a 15m window, get_candles(AAA-USDT, '15m') "
      "(15m routed only for BBB-USDT) lacks the started window although 30 one-minute candles are stored")
sys.exit(1)
