"""
C07 finding 1: a strategy callback fired by a LIQUIDATION reads its own timeframe's candles
without the window the liquidating one-minute candle belongs to (or with an outdated copy of it).

backtest_mode._check_for_liquidations() runs after the one-minute candle(s) are in the store but
BEFORE the bigger-timeframe candle of the window they complete is generated, and - unlike the
regular order path - it does not call _update_all_routes_a_partial_candle() first.  When the
number of stored 1m candles is a multiple of the timeframe, get_candles()/get_current_candle()
trust the (not yet written) higher-timeframe storage.
  * normal simulator: liquidation in the last minute of a window
  * fast simulator  : any liquidation in a chunk that ends a window (always, for a single route)

Run:  cd /tmp/wt/hc07 && PYTHONPATH=/tmp/wt/hc07 /venv/bin/python /tmp/wt/hc07.out/finding_1.py
"""
import sys
import numpy as np
import jesse.helpers as jh
from jesse.strategies import Strategy
from jesse import research
from jesse.store import store

EX, SYM, TF, TF_MIN = 'Fake Exchange', 'AAA-USDT', '5m', 5
T0 = 1609459200000  # 2021-01-01T00:00:00Z - aligned to 5m
SEEN = []


def aggregate(m1, minutes):
    out, n = [], minutes * 60_000
    for w in sorted(set(m1[:, 0] // n)):
        g = m1[m1[:, 0] // n == w]
        out.append([w * n, g[0, 1], g[-1, 2], g[:, 3].max(), g[:, 4].min(), g[:, 5].sum()])
    return np.array(out)


class S(Strategy):
    def should_long(self): return self.index == 0
    def should_short(self): return False
    def should_cancel_entry(self): return False
    def go_long(self): self.buy = 500, self.price          # market order, 10x isolated => liq. price ~ 90

    def on_close_position(self, order):                     # fired by the liquidation
        SEEN.append(dict(time=store.app.time,
                         m1=self.get_candles(EX, SYM, '1m').copy(),
                         candles=self.candles.copy(),
                         current=self.current_candle.copy()))


def run(drop_minute, fast):
    closes = [100.0] * 15
    for i in range(drop_minute, 15):
        closes[i] = 85.0
    c = np.zeros((15, 6))
    prev = 100.0
    for i, cl in enumerate(closes):
        c[i] = [T0 + i * 60_000, prev, cl, max(prev, cl), min(prev, cl), 1.0]
        prev = cl
    cfg = {'starting_balance': 10_000, 'fee': 0, 'type': 'futures', 'futures_leverage': 10,
           'futures_leverage_mode': 'isolated', 'exchange': EX, 'warm_up_candles': 0}
    routes = [{'exchange': EX, 'strategy': S, 'symbol': SYM, 'timeframe': TF}]
    SEEN.clear()
    research.backtest(cfg, routes, [], {jh.key(EX, SYM): {'exchange': EX, 'symbol': SYM, 'candles': c}}, fast_mode=fast)
    assert len(SEEN) == 1, 'expected exactly one liquidation'
    o = SEEN[0]
    exp = aggregate(o['m1'], TF_MIN)
    ok = o['candles'].shape == exp.shape and np.allclose(o['candles'], exp) and np.allclose(o['current'], exp[-1])
    name = f"{'fast' if fast else 'normal'} simulator, price collapses in minute {drop_minute}"
    print(f'--- {name}: on_close_position (liquidation) at store time +{int((o["time"] - T0) // 60_000)}min, '
          f'{len(o["m1"])} one-minute candles stored')
    print('    self.candles       :', (o['candles'][:, 0] - T0).astype(int) // 60_000, '(window starts, minutes) last =', o['candles'][-1, 1:].tolist())
    print('    self.current_candle: start +%dmin %s' % ((o['current'][0] - T0) // 60_000, o['current'][1:].tolist()))
    print('    property requires  :', (exp[:, 0] - T0).astype(int) // 60_000, 'last =', exp[-1, 1:].tolist(), '-> OK' if ok else '-> VIOLATED')
    return ok


results = [
    run(drop_minute=9, fast=False),   # last minute of the 2nd 5m window, normal simulator
    run(drop_minute=9, fast=True),    # same history, fast simulator
    run(drop_minute=7, fast=True),    # middle of the window: the fast simulator already stored the whole chunk
    run(drop_minute=7, fast=False),   # control: the normal simulator builds the forming candle here
]
if all(results):
    print('PASS')
    sys.exit(0)
print('FAIL: during a liquidation callback self.candles/self.current_candle omit the started 5m window '
      '(10 one-minute candles stored, only the first 5m candle visible) in both simulators')
sys.exit(1)
