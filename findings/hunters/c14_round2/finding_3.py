"""
C14 finding 3: several numba-backed indicators write/read OUT OF BOUNDS when the input is shorter
than their period, so instead of "one (NaN) entry per input candle" the interpreter's heap is
corrupted and the process usually dies (SIGABRT / SIGSEGV).  Same family as the recently repaired
mfi / donchian / adx short-input bugs, but these were left over and are memory-unsafe.

Property clause: "the sequential result has exactly one entry per input candle, its last entry equals
the non-sequential result" - quantified over input lengths BELOW the warm-up window.

  bollinger_bands._moving_std_numba : `for i in range(period - 1): result[i] = nan` on a len-n buffer
  cfo._compute_cfo                  : same pattern
  srsi._rolling_window / _calculate_stoch : as_strided view with a negative row count when fewer than
                                      period + period_stoch candles exist -> ValueError and/or segfault
(also zlema, frama, supertrend for n <= 2; found with NUMBA_BOUNDSCHECK=1.)

Each call is executed in a child interpreter running the UNCHANGED code; a second child runs the same
calls with the env var NUMBA_BOUNDSCHECK=1 (numba's own debugging switch, no source change) to show the
out-of-bounds index deterministically.

Run:  cd /tmp/wt/mc14 && PYTHONPATH=/tmp/wt/mc14 /venv/bin/python /tmp/wt/mc14.out/finding_3.py
"""
import os
import subprocess
import sys
import tempfile

CHILD = r'''
import sys, warnings
warnings.filterwarnings('ignore')
import numpy as np
import jesse.indicators as ta
rng = np.random.RandomState(0)
def candles(n):
    c = np.zeros((n, 6)); c[:, 0] = 1.6e12 + np.arange(n) * 60000
    c[:, 1:5] = 100 + rng.rand(n, 4); c[:, 3] = c[:, 1:5].max(axis=1) + 1; c[:, 4] = c[:, 1:5].min(axis=1) - 1
    c[:, 5] = 10
    return c
for spec in sys.argv[1:]:
    name, n = spec.split(':'); n = int(n)
    f = getattr(ta, name)
    try:
        for _ in range(30):                      # a strategy calls the indicator on every candle
            seq = f(candles(n), sequential=True)
            single = f(candles(n), sequential=False)
            junk = [np.zeros(k) for k in range(1, 40)]   # ordinary allocations afterwards
        first = seq[0] if isinstance(seq, tuple) else seq
        print(f"RESULT {name} n={n}: sequential len={len(first)} values={np.asarray(first, dtype=float)}", flush=True)
    except Exception as e:
        print(f"RESULT {name} n={n}: raised {type(e).__name__}: {str(e).splitlines()[0]}", flush=True)
'''


def run(specs, boundscheck):
    env = dict(os.environ)
    env['PYTHONPATH'] = os.getcwd() + os.pathsep + env.get('PYTHONPATH', '')
    if boundscheck:
        env['NUMBA_BOUNDSCHECK'] = '1'
        env['NUMBA_CACHE_DIR'] = tempfile.mkdtemp(prefix='nbcache_')
    p = subprocess.run([sys.executable, '-c', CHILD] + specs, env=env, capture_output=True, text=True, timeout=120)
    lines = [l for l in p.stdout.splitlines() if l.startswith('RESULT')]
    err = [l for l in p.stderr.strip().splitlines() if 'Warning' not in l and 'pkg_resources' not in l and 'msg' not in l]
    return p.returncode, lines, err[-1:] if err else []


# (indicator, number of candles) - all below the default period of the indicator (20, 14, 14)
specs = ['bollinger_bands:5', 'cfo:5', 'srsi:10']
bad = 0
print("--- unchanged code, one child interpreter per indicator ---")
for spec in specs:
    rc, lines, err = run([spec], boundscheck=False)
    died = rc != 0
    print(f"{spec}: child exit status {rc}{' (killed by signal %d)' % -rc if rc < 0 else ''} {err}")
    for l in lines:
        print("    ", l)
    if died or any('raised' in l for l in lines):
        bad += 1
print("--- same calls with NUMBA_BOUNDSCHECK=1 (numba debugging switch) ---")
rc, lines, err = run(specs, boundscheck=True)
for l in lines:
    print("    ", l)
    if 'IndexError' in l:
        bad += 1

print()
print("The property requires: for inputs shorter than the warm-up window (here: shorter than the period) the")
print("sequential result has one entry per candle (NaN) and its last entry equals the non-sequential result -")
print("this is what atr, sma, rsi, mfi, donchian, adx ... do.")
if bad:
    print("Observed: out-of-bounds accesses in the compiled kernels; the interpreter aborts / segfaults or "
          "continues with a corrupted heap.")
    print("FAIL: bollinger_bands, cfo and srsi index out of bounds on inputs shorter than their period and crash the "
          "process instead of returning one NaN entry per candle")
    sys.exit(1)
print("PASS")
