"""
C14 finding 1: vwmacd() never applies the warm-up slicing rule.

Property clause: "the non-sequential result on a long input equals the sequential
result computed on the trailing warm-up window (240) of that input".

jesse/indicators/vwmacd.py imports slice_candles but never calls it; it calls
vwma(..., sequential=True) on the FULL candle array in both modes.  Because vwma fills the
first `period` entries with partial (cumulative) windows, the value of the last entry depends
on more than the trailing 240 candles as soon as slow_period + signal_period - 1 > 240
(or slow_period > 240).  All other indicators (e.g. macd, vwma itself) obey the rule.

Run:  cd /tmp/wt/mc14 && PYTHONPATH=/tmp/wt/mc14 /venv/bin/python /tmp/wt/mc14.out/finding_1.py
"""
import sys
import warnings

warnings.filterwarnings('ignore')
import numpy as np
import jesse.indicators as ta

WARMUP = 240


def make_candles(n, seed=1):
    rng = np.random.RandomState(seed)
    c = np.zeros((n, 6))
    p = 100.0
    for i in range(n):
        o = p
        cl = o * (1 + rng.normal(0, 0.01))
        h = max(o, cl) * (1 + abs(rng.normal(0, 0.004)))
        l = min(o, cl) * (1 - abs(rng.normal(0, 0.004)))
        c[i] = [1_600_000_000_000 + i * 60_000, o, cl, h, l, rng.uniform(10, 1000)]
        p = cl
    return c


candles = make_candles(600)
bad = []

for params in [dict(fast_period=50, slow_period=200, signal_period=50),   # a plain 50/200 setup
               dict(fast_period=12, slow_period=250, signal_period=9),
               dict(fast_period=12, slow_period=26, signal_period=9)]:    # defaults (control)
    single = ta.vwmacd(candles, sequential=False, **params)
    seq_window = ta.vwmacd(candles[-WARMUP:], sequential=True, **params)
    seq_full = ta.vwmacd(candles, sequential=True, **params)
    print(f"vwmacd {params}, {len(candles)} candles")
    for field in single._fields:
        got = getattr(single, field)
        want = getattr(seq_window, field)[-1]
        full = getattr(seq_full, field)[-1]
        ok = np.isclose(got, want, rtol=1e-9, atol=1e-12, equal_nan=True)
        print(f"   {field:7s} non-sequential = {got:.10f}   sequential(last {WARMUP})[-1] = {want:.10f}"
              f"   sequential(all {len(candles)})[-1] = {full:.10f}   {'ok' if ok else 'MISMATCH'}")
        if not ok:
            bad.append((params, field, got, want))

# control: the sibling indicators do follow the slicing rule with the same periods
m1 = ta.macd(candles, 50, 200, 50, sequential=False)
m2 = ta.macd(candles[-WARMUP:], 50, 200, 50, sequential=True)
print("control macd(50,200,50): non-sequential", tuple(m1), " sequential(last 240)[-1]", tuple(x[-1] for x in m2))
v1 = ta.vwma(candles, 250, sequential=False)
v2 = ta.vwma(candles[-WARMUP:], 250, sequential=True)[-1]
print("control vwma(250): non-sequential", v1, " sequential(last 240)[-1]", v2)

print()
print("The property requires: non-sequential result on a long input == sequential result on the trailing")
print("240-candle window, for every field and for non-default periods.")
if bad:
    print(f"Observed: {len(bad)} field values of vwmacd computed from the whole history instead "
          f"(they equal sequential(all)[-1]).")
    print("FAIL: vwmacd ignores the warm-up window (no slice_candles call), so its non-sequential macd/signal/hist "
          "differ from the sequential result on the trailing 240 candles for long periods")
    sys.exit(1)
print("PASS")
