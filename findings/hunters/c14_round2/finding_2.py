"""
C14 finding 2: tsf() - sequential and non-sequential modes disagree on inputs shorter than the period.

Property clause: "the sequential result has exactly one entry per input candle, its last entry
equals the non-sequential result on the same input" - quantified over input lengths below the
warm-up window and non-default periods.

jesse/indicators/tsf.py has two separate code paths.  The sequential path returns an all-NaN
series of the right length when len(candles) < period, but the non-sequential path does
    y = source[-period:];  beta = inv(X.T @ X) @ X.T @ y      (X has `period` rows)
without any length guard, so it raises ValueError (matmul shape mismatch) instead of returning
NaN = sequential[-1].  The sibling indicators (linearreg, linearreg_intercept, linearreg_slope,
and the recently repaired mfi / donchian / adx) return NaN in both modes.

It is also reached on LONG inputs: with period > 240 the non-sequential call slices the input
to 240 candles and then raises, while tsf(candles[-240:], sequential=True)[-1] is NaN.

Run:  cd /tmp/wt/mc14 && PYTHONPATH=/tmp/wt/mc14 /venv/bin/python /tmp/wt/mc14.out/finding_2.py
"""
import sys
import warnings

warnings.filterwarnings('ignore')
import numpy as np
import jesse.indicators as ta


def make_candles(n, seed=1):
    rng = np.random.RandomState(seed)
    c = np.zeros((n, 6))
    p = 100.0
    for i in range(n):
        o = p
        cl = o * (1 + rng.normal(0, 0.01))
        h = max(o, cl) * (1 + abs(rng.normal(0, 0.004)))
        l = min(o, cl) * (1 - abs(rng.normal(0, 0.004)))
        c[i] = [1_600_000_000_000 + i * 60_000, o, cl, h, l, rng.uniform(10, 1000)]
        p = cl
    return c


def call(f, *a, **k):
    try:
        return f(*a, **k)
    except Exception as e:  # noqa
        return e


bad = 0
cases = [(10, 14, 'tsf'), (13, 14, 'tsf'), (14, 14, 'tsf'), (50, 60, 'tsf'), (500, 250, 'tsf'),
         (10, 14, 'linearreg'), (10, 14, 'linearreg_intercept'), (10, 14, 'donchian'), (10, 14, 'mfi')]
for n, period, name in cases:
    f = getattr(ta, name)
    candles = make_candles(n)
    window = candles[-240:]
    seq = call(f, window, period=period, sequential=True)
    single = call(f, candles, period=period, sequential=False)
    if isinstance(seq, tuple):
        seq = seq[0]
        single = single[0] if isinstance(single, tuple) else single
    seq_desc = repr(seq) if isinstance(seq, Exception) else f"array(len={len(seq)}), last={seq[-1]}"
    print(f"{name}(period={period}) on {n} candles: sequential -> {seq_desc};  non-sequential -> {single!r}"[:230])
    agree = (not isinstance(seq, Exception) and not isinstance(single, Exception)
             and len(seq) == len(window) and np.isclose(seq[-1], single, equal_nan=True))
    if not agree:
        bad += 1
        print("      ^^^ MISMATCH: the property requires non-sequential == sequential[-1] (here NaN)")

print()
print("The property requires, for input lengths below the warm-up window and non-default periods: the sequential")
print("result has one entry per candle and its last entry equals the non-sequential result.")
if bad:
    print(f"Observed: {bad} cases where tsf(sequential=True) returns an all-NaN series but tsf(sequential=False) raises.")
    print("FAIL: tsf non-sequential raises ValueError when fewer candles than the period are available "
          "(also for period > 240 on long inputs) while the sequential result is a NaN series")
    sys.exit(1)
print("PASS")
