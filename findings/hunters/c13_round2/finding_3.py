"""
C13 finding 3: wma is not exactly causal - the last bits of value i depend on how many candles FOLLOW i -
and on a flat price stretch that noise is turned into discrete / macroscopic look-ahead by the indicators
built on it: hull_suit (DEFAULT parameters) flips its 'buy'/'sell' signal of a fixed candle, and
zscore(matype=2) returns +0.5 or -0.5 for the same candle.

Run:  cd /tmp/wt/mc13 && PYTHONPATH=/tmp/wt/mc13 /venv/bin/python /tmp/wt/mc13.out/finding_3.py

Mechanism (jesse/indicators/wma.py: weighted_moving_average_custom):
    np.dot(sliding_window_view(source, period), weights)
is a BLAS matrix-vector product; BLAS handles the rows in blocks and the left-over rows with a different
summation order, so the rounding of row i depends on the total number of rows (= number of candles).
On a flat stretch (no trades: o=h=l=c) every wma should be the same number, but it comes out as
27123.45 or 27123.450000000004 depending on the input length; hull_suit compares mode[i-2] < mode[i]
and zscore divides (source - wma) by a std of a few ulp, so the 1-ulp noise decides the result.
(Observed with multi-threaded and with single-threaded OpenBLAS; the affected indices differ, the defect does not.)
"""
import sys
import warnings
warnings.filterwarnings('ignore')
import numpy as np
import jesse.indicators as ta

rng = np.random.RandomState(7)
n = 400
price = 27123.45
close = (100 + np.cumsum(rng.randn(n))) * price / 100
open_ = np.roll(close, 1); open_[0] = close[0]
high = np.maximum(open_, close) + np.abs(rng.randn(n)) * 0.3 * price / 100
low = np.minimum(open_, close) - np.abs(rng.randn(n)) * 0.3 * price / 100
vol = np.abs(rng.randn(n)) * 100 + 1
ts = 1609459200000 + np.arange(n) * 60000
candles = np.column_stack([ts, open_, close, high, low, vol]).astype(float)
candles[150:250, 1:5] = price        # 100 quiet candles (o=h=l=c), afterwards the market moves again

violations = 0
prefixes = range(210, n)      # every prefix length that ends inside or after the flat stretch


def scan(name, fn, field, exact):
    """compare fn(candles[:m]) with fn(candles)[:m] for all prefixes; return (#bad prefixes, first example)"""
    full = fn(candles)
    full = getattr(full, field) if field else full
    nbad, example = 0, None
    for m in prefixes:
        pre = fn(candles[:m].copy())
        pre = getattr(pre, field) if field else pre
        a = full[:m]
        if a.dtype.kind == 'O':
            bad = np.where(a != pre)[0]
        elif exact:
            bad = np.where(~((a == pre) | (np.isnan(a) & np.isnan(pre))))[0]
        else:
            bad = np.where(~np.isclose(a, pre, rtol=1e-9, atol=1e-12, equal_nan=True))[0]
        if len(bad):
            nbad += 1
            if example is None:
                example = (m, int(bad[0]), pre[bad[0]], a[bad[0]])
    print(f"{name}: {nbad} of {len(prefixes)} prefix lengths disagree with the full series", end='')
    if example:
        m, i, p, f = example
        print(f"; e.g. value of candle {i}: on candles[:{m}] = {p!r}, on all {n} candles = {f!r}")
    else:
        print()
    return nbad


# (a) wma itself: strict equality of the prefix fails (last-bit differences)
violations += scan("wma(period=55) [exact ==]", lambda c: ta.wma(c, period=55, sequential=True), None, True) > 0
# (b) hull_suit with DEFAULT parameters: the discrete buy/sell signal of a fixed candle flips
violations += scan("hull_suit() default, field signal", lambda c: ta.hull_suit(c, sequential=True), 'signal', False) > 0
# (c) zscore with a wma mean (tolerance 1e-9): noise / ~0 gives different numbers
violations += scan("zscore(period=28, matype=2) [rtol 1e-9]",
                   lambda c: ta.zscore(c, period=28, matype=2, sequential=True), None, False) > 0

# control: the same flat data through sma is exactly causal
scan("control sma(period=55) [exact ==]", lambda c: ta.sma(c, period=55, sequential=True), None, True)

print()
print("Property C13 requires: every field computed on a prefix EQUALS the prefix of the full series, for")
print("structured series (flats are named explicitly) and default parameters.")
if violations:
    print("FAIL: wma rounding depends on the input length (BLAS dot over sliding windows); on a flat stretch "
          "hull_suit's default buy/sell signal and zscore(matype=2) of a fixed candle change when later candles are appended")
    sys.exit(1)
print("no violation observed")
