"""
C13 finding 2: rsmk (both fields) is not causal: ONE later candle whose source ratio is zero / infinite
(e.g. a no-trade candle with volume 0 and source_type='volume') turns EVERY earlier value into NaN.

Run:  cd /tmp/wt/mc13 && PYTHONPATH=/tmp/wt/mc13 /venv/bin/python /tmp/wt/mc13.out/finding_2.py

Mechanism (jesse/indicators/rsmk.py, inner function ema): the EMA is evaluated as
    np.sum(weights * segment.reshape(1, -1), axis=1)
with an m x m weight matrix that holds 0 for "future" columns. log(0) = -inf puts +-inf into the
momentum series, and 0 * inf = NaN, so the future column poisons every row - including the rows of
all earlier candles. A causal EMA would only be affected from that candle on.
"""
import sys
import warnings
warnings.filterwarnings('ignore')
import numpy as np
import jesse.indicators as ta


def candles(seed, n=260):
    rng = np.random.RandomState(seed)
    close = 100 + np.cumsum(rng.randn(n))
    open_ = np.roll(close, 1); open_[0] = close[0]
    high = np.maximum(open_, close) + np.abs(rng.randn(n)) * 0.3
    low = np.minimum(open_, close) - np.abs(rng.randn(n)) * 0.3
    vol = np.abs(rng.randn(n)) * 100 + 1
    ts = 1609459200000 + np.arange(n) * 60000
    return np.column_stack([ts, open_, close, high, low, vol]).astype(float)


c = candles(0)
bench = candles(1)
c[200, 5] = 0.0          # candle 200 of the traded symbol had no trades: volume 0 (a legal candle)

kw = dict(lookback=90, period=3, signal_period=20, source_type='volume')
m = 180                  # prefix ends 20 candles BEFORE the zero-volume candle
full = ta.rsmk(c, bench, sequential=True, **kw)
pre = ta.rsmk(c[:m].copy(), bench[:m].copy(), sequential=True, **kw)

violations = 0
for field in full._fields:
    a = np.asarray(getattr(full, field), dtype=float)[:m]
    b = np.asarray(getattr(pre, field), dtype=float)
    bad = np.where(~np.isclose(a, b, rtol=1e-9, atol=1e-12, equal_nan=True))[0]
    print(f"rsmk.{field}: {len(bad)} of {m} entries differ (first valid index is {kw['lookback']})")
    for i in (95, 150, 179):
        print(f"    index {i}: on candles[:{m}] = {b[i]!r:>22}   on all {len(c)} candles = {a[i]!r}")
    violations += len(bad) > 0

# control: without the zero-volume candle the same call is causal
c_ok = candles(0)
full_ok = ta.rsmk(c_ok, bench, sequential=True, **kw)
print("control (no zero-volume candle): equal =",
      np.allclose(full_ok.indicator[:m], pre.indicator, equal_nan=True))

print()
print("Property C13 requires: value i of every field depends only on candles 0..i (source types included).")
print("Observed: candle 200 decides whether the values at indices 90..179 are numbers or NaN.")
if violations:
    print("FAIL: rsmk indicator and signal at all earlier indices become NaN when a later candle has a zero/inf "
          "source ratio, because the matrix EMA multiplies future +-inf by weight 0 (0*inf = NaN)")
    sys.exit(1)
print("no violation observed")
