"""
C13 finding 1: stoch / stochf / kdj with a smoothing matype of 16 (gauss), 28 (hwma) or 33 (maaq)
are not causal when the candles contain a flat stretch (high == low for >= fastk_period candles).

Run:  cd /tmp/wt/mc13 && PYTHONPATH=/tmp/wt/mc13 /venv/bin/python /tmp/wt/mc13.out/finding_1.py

Mechanism: during a flat stretch the raw stochastic is 0/0 = NaN. The series is handed to
ma(..., matype), and gauss / hwma / maaq DROP every NaN of their input (source[~np.isnan(source)])
and pad the result with the same number of NaNs AT THE FRONT. A NaN that appears at candle j
therefore shifts every earlier output one position to the right: value i (i < j) depends on
candle j.
"""
import sys
import warnings
warnings.filterwarnings('ignore')
import numpy as np
import jesse.indicators as ta

rng = np.random.RandomState(7)
n = 260
close = 100 + np.cumsum(rng.randn(n))
open_ = np.roll(close, 1); open_[0] = close[0]
high = np.maximum(open_, close) + np.abs(rng.randn(n)) * 0.3
low = np.minimum(open_, close) - np.abs(rng.randn(n)) * 0.3
vol = np.abs(rng.randn(n)) * 100 + 1
ts = 1609459200000 + np.arange(n) * 60000
candles = np.column_stack([ts, open_, close, high, low, vol]).astype(float)
# a quiet market: candles 200..219 have no trades, o = h = l = c = previous close, volume 0
candles[200:220, 1:5] = candles[199, 2]
candles[200:220, 5] = 0.0

m = 190            # the prefix ends BEFORE the flat stretch begins
cases = [
    ('stoch',  dict(fastk_period=14, slowk_period=3, slowk_matype=16, slowd_period=3, slowd_matype=0)),
    ('stoch',  dict(fastk_period=14, slowk_period=3, slowk_matype=0, slowd_period=3, slowd_matype=28)),
    ('stochf', dict(fastk_period=5, fastd_period=3, fastd_matype=33)),
    ('kdj',    dict(fastk_period=9, slowk_period=3, slowk_matype=16, slowd_period=3, slowd_matype=0)),
]
violations = 0
for name, kw in cases:
    fn = getattr(ta, name)
    full = fn(candles, sequential=True, **kw)
    pre = fn(candles[:m].copy(), sequential=True, **kw)
    for field in full._fields:
        a = np.asarray(getattr(full, field), dtype=float)[:m]
        b = np.asarray(getattr(pre, field), dtype=float)
        bad = np.where(~np.isclose(a, b, rtol=1e-9, atol=1e-12, equal_nan=True))[0]
        if len(bad):
            violations += 1
            i = 100
            print(f"{name}({kw}).{field}: {len(bad)} of {m} entries differ; "
                  f"e.g. index {i}: on candles[:{m}] = {b[i]:.6f}, on all {n} candles = {a[i]:.6f}")
        else:
            print(f"{name}({kw}).{field}: causal (ok)")

# control: the default matype is causal on the same data
full = ta.stoch(candles, sequential=True); pre = ta.stoch(candles[:m].copy(), sequential=True)
print("control stoch(default matype 0): k equal =", np.allclose(full.k[:m], pre.k, equal_nan=True))

print()
print("Property C13 requires: series(candles[:m])[i] == series(candles)[i] for every i < m, every field,")
print("default and non-default parameters, random and structured (flat) candles.")
print("Observed: candles 200..219 (after the prefix) change the values at indices < 190.")
if violations:
    print("FAIL: stoch/stochf/kdj with matype 16/28/33 shift all earlier k/d values when a later flat stretch "
          "(high==low) produces NaN, because gauss/hwma/maaq strip NaNs and re-pad at the front")
    sys.exit(1)
print("no violation observed")
