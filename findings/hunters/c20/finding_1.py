"""C20 finding 1: CandlesState.add_candle does not replace a stored candle when it is the SECOND candle of a
store that holds 21 or more candles (and raises IndexError for an older, unknown timestamp on a short store)."""
import sys, warnings
warnings.filterwarnings('ignore')
import numpy as np
from jesse.config import config, reset_config
from jesse.store import store
from jesse.strategies import Strategy

class S(Strategy):
    def should_long(self): return False
    def go_long(self): pass
    def should_cancel_entry(self): return False

EX, SYM = 'Sandbox', 'BTC-USD'
T0 = 1609459200000

def set_up():
    reset_config()
    from jesse.routes import router
    router.set_routes([{'exchange': EX, 'symbol': SYM, 'timeframe': '1m', 'strategy': S}])
    router.set_data_candles([{'exchange': EX, 'symbol': SYM, 'timeframe': '5m'}])
    config['app']['considering_timeframes'] = ['1m', '5m']
    config['app']['considering_symbols'] = [SYM]
    config['app']['considering_exchanges'] = [EX]
    config['app']['trading_mode'] = 'backtest'
    store.reset(True)
    store.candles.init_storage()

def candle(ts, price): return np.array([ts, price, price, price, price, 1.0])

def replaced_positions(n, tf, step):
    """store n candles, then re-add every stored timestamp with a new price; return the positions NOT replaced"""
    set_up()
    for i in range(n):
        store.candles.add_candle(candle(T0 + i * step, 100.0), EX, SYM, tf, with_execution=False, with_generation=False)
    missed = []
    for i in range(n):
        store.candles.add_candle(candle(T0 + i * step, 200.0 + i), EX, SYM, tf, with_execution=False, with_generation=False)
        arr = store.candles.get_storage(EX, SYM, tf)[:]
        assert len(arr) == n and np.all(np.diff(arr[:, 0]) > 0)
        if arr[i][2] != 200.0 + i:
            missed.append(i)
    return missed

failed = False
for tf, step in (('1m', 60_000), ('5m', 300_000)):
    for n in (3, 20, 21, 22, 50, 300):
        missed = replaced_positions(n, tf, step)
        print(f'timeframe {tf}, {n:3d} stored candles: re-adding each stored timestamp -> positions NOT replaced: {missed}')
        failed = failed or bool(missed)
print('property requires: a candle with the timestamp of a stored candle replaces it (for every stored candle) -> []')

# secondary symptom of the same loop: an older candle whose timestamp is not stored raises instead of being ignored
set_up()
for i in range(5):
    store.candles.add_candle(candle(T0 + i * 120_000, 100.0), EX, SYM, '1m', with_execution=False, with_generation=False)
try:
    store.candles.add_candle(candle(T0 + 60_000, 1.0), EX, SYM, '1m', with_execution=False, with_generation=False)
    print('older candle with an unknown timestamp on a 5-candle store: ignored (fine)')
except IndexError as e:
    print(f'older candle with an unknown timestamp on a 5-candle store (<= 18 candles): add_candle raised IndexError({e})')

if failed:
    print('FAIL: add_candle silently ignores a candle carrying the timestamp of the second stored candle once the store holds '
          '21 or more candles, so that stored candle is never replaced')
    sys.exit(1)
print('OK')
