"""C20 finding 2: a fill inside a 3D candle puts a wrongly aligned partial candle into the 3D store; the
completed 3D candle that follows is then 'older' than it and is silently dropped (or crashes add_candle)."""
import sys, warnings
warnings.filterwarnings('ignore')
import numpy as np
import jesse.helpers as jh
from jesse.strategies import Strategy
from jesse.research import backtest
from jesse.store import store

DAY = 86_400_000
START = 1609459200000            # 2021-01-01T00:00:00Z, a perfectly legal backtest start date
EX, SYM = 'Binance Perpetual Futures', 'BTC-USDT'
SEEN = {}

def rel_days(tf='3D'):
    return [round((t - START) / DAY, 3) for t in store.candles.get_storage(EX, SYM, tf)[:][:, 0]]

class OneLimitBuy(Strategy):
    def should_long(self): return not self.vars.get('sent')
    def go_long(self):
        self.vars['sent'] = True
        self.buy = 1, 96                      # resting limit order, filled by the dip on day 5.5
    def should_cancel_entry(self): return False
    def on_open_position(self, order): SEEN['after_fill'] = rel_days()
    def terminate(self): SEEN['final'] = rel_days()

def flat(first_ts, n):
    a = np.zeros((n, 6)); a[:, 0] = first_ts + 60_000 * np.arange(n); a[:, 1:5] = 100.0; a[:, 5] = 1.0
    return a

def run(warm_3d, fast):
    SEEN.clear()
    warm_n = warm_3d * 4320
    trading = flat(START, 2 * 4320)            # exactly two 3D candles: days [0,3) and [3,6)
    trading[int(5.5 * 1440), 4] = 95.0         # one dip at day 5.5 fills the limit buy
    cfg = {'starting_balance': 100_000, 'fee': 0, 'type': 'futures', 'futures_leverage': 1,
           'futures_leverage_mode': 'cross', 'exchange': EX, 'warm_up_candles': 0}
    routes = [{'exchange': EX, 'strategy': OneLimitBuy, 'symbol': SYM, 'timeframe': '3D'}]
    key = jh.key(EX, SYM)
    candles = {key: {'exchange': EX, 'symbol': SYM, 'candles': trading}}
    warm = {key: {'exchange': EX, 'symbol': SYM, 'candles': flat(START - warm_n * 60_000, warm_n)}} if warm_n else None
    try:
        backtest(cfg, routes, [], candles, warmup_candles=warm, fast_mode=fast)
        return None
    except Exception as e:
        return e

bad = False
for fast in (False, True):
    # (B) with 20 warm-up 3D candles in the store (a normal backtest has 210)
    err = run(20, fast)
    final = SEEN.get('final') or []
    print(f'[fast_mode={fast}] 20 warm-up 3D candles + 6 trading days, one fill at day 5.5; error: {err!r}')
    print('   3D store right after the fill (last 3, days since start):', (SEEN.get('after_fill') or [])[-3:])
    print('   3D store at the end          (last 3, days since start):', final[-3:])
    print('   required: ..., -3.0, 0.0, 3.0  (one candle per 3 days, the completed candle of days [3,6) appended)')
    if final[-3:] != [-3.0, 0.0, 3.0]:
        bad = True
# (A) same session without warm-up candles: the completed candle is not dropped silently, add_candle raises
err = run(0, False)
print(f'[no warm-up] 3D store after the fill: {SEEN.get("after_fill")}; adding the completed 3D candle of days [3,6) raised: {err!r}')
print('   required: the completed candle with the new timestamp day 3.0 is appended -> [0.0, 3.0]')
bad = bad or err is not None

if bad:
    print('FAIL: after an order fill inside a 3D candle the 3D series in the store is not one candle per timeframe: '
          'a partial candle aligned to the epoch (day 5) is stored and the completed candle (day 3) is dropped or raises IndexError')
    sys.exit(1)
print('OK')
