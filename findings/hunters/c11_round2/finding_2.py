"""
C11 - research.backtest(generate_logs=True) is not pure/repeatable: every session leaks a logging.FileHandler, and
every LATER session writes its log lines into the log files that EARLIER calls returned.

jesse/services/logger.py:_init_main_logger() does
      new_logger = logging.getLogger(jh.app_mode())          # always the process-wide logger named 'backtest'
      new_logger.addHandler(logging.FileHandler(filename, mode='w'))
and logger.reset() (called by save_daily_portfolio_balance(is_initial=True) at the start of each session) only clears
the LOGGERS dict - the handlers stay attached to the 'backtest' logger of the logging module. So after k sessions the
logger has k open FileHandlers and each new log line is appended to the files of all earlier sessions.

Effect shown here: two calls with EQUAL arguments return log files with different contents (the first has every
line of the second session appended); an unrelated later session (other exchange, spot) is appended too; one file
descriptor per session stays open for the life of the process.
Run:  cd /tmp/wt/gc11 && PYTHONPATH=/tmp/wt/gc11 /venv/bin/python /tmp/wt/gc11.out/finding_2.py
"""
import os, sys, re, tempfile, logging
os.chdir(tempfile.mkdtemp(prefix='gc11_f2_'))          # the logs go to ./storage/logs/...
import numpy as np
import jesse
pass
import jesse.helpers as jh
from jesse.strategies import Strategy
from jesse import research

T0 = 1_599_955_200_000


def candles(n, seed):
    rng = np.random.RandomState(seed)
    close = 100 + np.cumsum(rng.randn(n)) * 0.5
    rows, prev = [], 100.0
    for i in range(n):
        o, c = prev, close[i]
        rows.append([T0 + i * 60_000, o, c, max(o, c) + 0.2, min(o, c) - 0.2, 10.0])
        prev = c
    return np.array(rows)


class S(Strategy):
    def should_long(self): return self.index % 10 == 1
    def should_cancel_entry(self): return True
    def go_long(self): self.buy = 1, self.price
    def on_open_position(self, order):
        self.stop_loss = self.position.qty, self.price - 1.0
        self.take_profit = self.position.qty, self.price + 1.0


def args(exchange, typ, symbol, seed):
    config = {'starting_balance': 10_000, 'fee': 0.001, 'type': typ, 'futures_leverage': 2,
              'futures_leverage_mode': 'cross', 'exchange': exchange, 'warm_up_candles': 0}
    routes = [{'exchange': exchange, 'strategy': S, 'symbol': symbol, 'timeframe': '1m'}]
    cs = {jh.key(exchange, symbol): {'exchange': exchange, 'symbol': symbol, 'candles': candles(120, seed)}}
    return config, routes, [], cs


def content(path):
    # wall-clock-free already (simulated time); only order ids are random: mask uuids
    return re.sub(r'[0-9a-f]{8}-[0-9a-f-]{27}', 'UUID', open(path).read())


fds0 = len(os.listdir('/proc/self/fd'))
r1 = research.backtest(*args('Ex A', 'futures', 'BTC-USDT', 1), generate_logs=True)
c1_right_after = content(r1['logs'])
r2 = research.backtest(*args('Ex A', 'futures', 'BTC-USDT', 1), generate_logs=True)      # equal arguments
c1, c2 = content(r1['logs']), content(r2['logs'])
print('metrics equal                                   :', r1['metrics'] == r2['metrics'])
print('log of call 1, read right after call 1          :', len(c1_right_after.splitlines()), 'lines')
print('log of call 1, read after call 2                :', len(c1.splitlines()), 'lines')
print('log of call 2                                   :', len(c2.splitlines()), 'lines')
print('log 1 == log 1 as first read + log 2            :', c1 == c1_right_after + c2)
r3 = research.backtest(*args('Binance Spot', 'spot', 'ETH-USDT', 7), generate_logs=True)  # unrelated session
c1b = content(r1['logs'])
print('log of call 1 after an unrelated spot session   :', len(c1b.splitlines()), 'lines; mentions ETH-USDT:',
      'ETH-USDT' in c1b)
h = logging.getLogger('backtest').handlers
print("handlers attached to logging.getLogger('backtest'):", len(h), '| open fds grew by', len(os.listdir('/proc/self/fd')) - fds0)
print('property C11: equal arguments must give equal results and a call must not have effects that depend on / act on')
print('other sessions: the two log files of the equal calls must have equal contents (%d lines each), and the log of' % len(c2.splitlines()))
print('a BTC-USDT futures session must not receive the lines of a later ETH-USDT spot session.')
if c1 != c2 or 'ETH-USDT' in c1b or len(h) > 1:
    print('FAIL: with generate_logs=True two calls with equal arguments yield log files with different contents, because the '
          "FileHandler of every session stays attached to the process-wide 'backtest' logger and later sessions are appended to earlier logs (one leaked fd per session).")
    sys.exit(1)
print('PASS')
