"""
C11 - research.backtest is not repeatable: state written to `order.vars` survives in the process.

jesse.models.Order declares   vars = JSONField(default={})   . peewee hands a non-callable default out as the very
same object to every instance, so ALL Order objects of the process - in every later research.backtest() session,
whatever its exchange, account type or routes - share ONE dict. store.reset()/reset_config() cannot clear it (it
lives on the model class), so whatever a strategy keeps in `order.vars` (the model's own free-form per-order slot:
"some exchanges might require even further info") is still there in the next isolated backtest.

Below: the same call, with equal arguments, made twice in a row returns different metrics; and the probe also differs
from a fresh process after an unrelated earlier session (other exchange name, spot, other symbol) that aborted.
Run:  cd /tmp/wt/gc11 && PYTHONPATH=/tmp/wt/gc11 /venv/bin/python /tmp/wt/gc11.out/finding_1.py
"""
import os, sys, json, tempfile
os.chdir(tempfile.mkdtemp(prefix='gc11_f1_'))          # jesse creates ./storage/temp at import
import numpy as np
import jesse
pass
import jesse.helpers as jh
from jesse.strategies import Strategy
from jesse import research

T0 = 1_599_955_200_000


def candles(n, seed):
    rng = np.random.RandomState(seed)
    close = 100 + np.cumsum(rng.randn(n)) * 0.5
    rows, prev = [], 100.0
    for i in range(n):
        o, c = prev, close[i]
        rows.append([T0 + i * 60_000, o, c, max(o, c) + 0.2, min(o, c) - 0.2, 10.0])
        prev = c
    return np.array(rows)


class Bracket(Strategy):
    """enters long every 10 candles. The exits are placed when the fill of an entry order is reported for the first
    time; the strategy remembers that on the order object itself (order.vars), which starts empty for a new order"""
    def should_long(self): return self.index % 10 == 1
    def should_cancel_entry(self): return True
    def go_long(self): self.buy = 1, self.price

    def on_open_position(self, order):
        if order.vars.get('exits_placed'):       # this order has been handled before
            return
        order.vars['exits_placed'] = True
        self.stop_loss = self.position.qty, self.price - 1.0
        self.take_profit = self.position.qty, self.price + 1.0


class Failing(Bracket):
    """used by the EARLIER session only: same bookkeeping, then the session aborts in the hook"""
    def on_open_position(self, order):
        super().on_open_position(order)
        raise RuntimeError('strategy bug in the earlier session')


def args(exchange, typ, symbol, strat, seed):
    config = {'starting_balance': 10_000, 'fee': 0.001, 'type': typ, 'futures_leverage': 2,
              'futures_leverage_mode': 'cross', 'exchange': exchange, 'warm_up_candles': 0}
    routes = [{'exchange': exchange, 'strategy': strat, 'symbol': symbol, 'timeframe': '1m'}]
    cs = {jh.key(exchange, symbol): {'exchange': exchange, 'symbol': symbol, 'candles': candles(300, seed)}}
    return config, routes, [], cs


def probe():
    m = research.backtest(*args('Ex A', 'futures', 'BTC-USDT', Bracket, 1))['metrics']
    return {k: m.get(k) for k in ('total', 'win_rate', 'net_profit_percentage', 'fee')}


def in_child(fn):
    r, w = os.pipe()
    pid = os.fork()
    if pid == 0:
        os.write(w, json.dumps(fn()).encode()); os._exit(0)
    os.close(w); data = os.read(r, 1 << 20); os.waitpid(pid, 0)
    return json.loads(data)


def after_aborted_session():
    try:
        research.backtest(*args('Other Exchange', 'spot', 'ETH-USDT', Failing, 2))
    except RuntimeError as e:
        print('   (earlier session on "Other Exchange"/spot/ETH-USDT aborted:', e, ')')
    return probe()


fresh = in_child(probe)
twice = in_child(lambda: [probe(), probe()])
hist = in_child(after_aborted_session)
from jesse.models import Order
print('Order._meta.fields["vars"].default is one shared object:', Order._meta.fields['vars'].default == {} and
      Order._meta.fields['vars'].default is Order._meta.fields['vars'].default)
print('probe in a fresh process              :', fresh)
print('same call twice, 1st result           :', twice[0])
print('same call twice, 2nd result           :', twice[1])
print('probe after an aborted other session  :', hist)
print('property C11 requires all four to be equal (equal arguments -> equal results, whatever ran before).')
bad = []
if twice[0] != twice[1]:
    bad.append('two consecutive calls with equal arguments return different metrics')
if hist != fresh:
    bad.append('the probe after an aborted session on another exchange/symbol differs from the fresh-process probe')
if bad:
    print('FAIL: ' + ' and '.join(bad) + ' because Order.vars (JSONField(default={})) is one dict shared by every Order of the process and is never reset.')
    sys.exit(1)
print('PASS')
