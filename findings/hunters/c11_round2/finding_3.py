"""
C11 - research.backtest does not leave its `hyperparameters` argument unmodified (weakest of the three findings: it
needs a strategy that writes to its own self.hp).

backtest_mode._prepare_routes() does    r.strategy.hp = route_hyperparameters    for EVERY route: the dict object
passed by the caller is handed, un-copied, to all strategy instances (the candles are deep-copied "to make sure we
don't mutate the past data", the hyperparameters are not). When the argument is omitted every strategy gets a dict
of its own (built from hyperparameters()/dna()), so a strategy may legitimately treat self.hp as its own state -
e.g. cast an optimiser-supplied float to int, or adapt a parameter while trading. With the argument passed, that
write goes (a) into the caller's dict and (b) into the hp of the OTHER routes of the same session; the caller's next
call with "the same" hyperparameters object therefore runs with other values.
Run:  cd /tmp/wt/gc11 && PYTHONPATH=/tmp/wt/gc11 /venv/bin/python /tmp/wt/gc11.out/finding_3.py
"""
import os, sys, copy, tempfile
os.chdir(tempfile.mkdtemp(prefix='gc11_f3_'))
import numpy as np
import jesse
pass
import jesse.helpers as jh
from jesse.strategies import Strategy
from jesse import research

T0 = 1_599_955_200_000


def candles(n, seed):
    rng = np.random.RandomState(seed)
    close = 100 + np.cumsum(rng.randn(n)) * 0.5
    rows, prev = [], 100.0
    for i in range(n):
        o, c = prev, close[i]
        rows.append([T0 + i * 60_000, o, c, max(o, c) + 0.2, min(o, c) - 0.2, 10.0])
        prev = c
    return np.array(rows)


SEEN = []


class Adaptive(Strategy):
    """exit distance is a hyperparameter; after a losing trade the strategy widens it (its own, per-instance, state)"""
    def hyperparameters(self):
        return [{'name': 'dist', 'type': float, 'min': 0.5, 'max': 5.0, 'default': 1.0}]
    def should_long(self): return self.index % 10 == 1
    def should_cancel_entry(self): return True
    def go_long(self): self.buy = 1, self.price
    def on_open_position(self, order):
        SEEN.append((self.symbol, self.index, self.hp['dist']))
        self.stop_loss = self.position.qty, self.price - self.hp['dist']
        self.take_profit = self.position.qty, self.price + self.hp['dist']
    def on_close_position(self, order):
        if self.trades[-1].pnl < 0:
            self.hp['dist'] = round(self.hp['dist'] * 1.5, 4)


def args():
    ex = 'Ex A'
    config = {'starting_balance': 10_000, 'fee': 0.001, 'type': 'futures', 'futures_leverage': 2,
              'futures_leverage_mode': 'cross', 'exchange': ex, 'warm_up_candles': 0}
    routes = [{'exchange': ex, 'strategy': Adaptive, 'symbol': s, 'timeframe': '1m'} for s in ('BTC-USDT', 'ETH-USDT')]
    cs = {jh.key(ex, s): {'exchange': ex, 'symbol': s, 'candles': candles(300, i + 1)} for i, s in enumerate(('BTC-USDT', 'ETH-USDT'))}
    return config, routes, [], cs


hp = {'dist': 1.0}
before = copy.deepcopy(hp)
r1 = research.backtest(*args(), hyperparameters=hp)
seen1 = list(SEEN); SEEN.clear()
after1 = copy.deepcopy(hp)
r2 = research.backtest(*args(), hyperparameters=hp)          # the caller passes "the same" hyperparameters again
seen2 = list(SEEN); SEEN.clear()
r_ref = research.backtest(*args(), hyperparameters={'dist': 1.0})
seen_ref = list(SEEN)
pick = lambda r: {k: r['metrics'].get(k) for k in ('total', 'win_rate', 'net_profit_percentage')}
print('hyperparameters argument before the call :', before)
print('hyperparameters argument after the call  :', after1)
print('first fills, 1st call (symbol, index, dist):', seen1[:4])
print('first fills, 2nd call with the same object :', seen2[:4])
print('1st call                         :', pick(r1))
print('2nd call, same hp object         :', pick(r2))
print('call with a new {"dist": 1.0}    :', pick(r_ref))
print('property C11: the call must leave its arguments unmodified (and routes must not influence each other through them).')
if after1 != before or pick(r2) != pick(r1):
    print('FAIL: research.backtest hands the caller\'s hyperparameters dict un-copied to every route\'s strategy (r.strategy.hp = route_hyperparameters), '
          'so a strategy updating self.hp modifies the argument (%s -> %s) and the next call with that object returns other results.' % (before, after1))
    sys.exit(1)
print('PASS')
