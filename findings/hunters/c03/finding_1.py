"""
C03 finding 1: an oversize reduce-only order is charged a fee on its NOMINAL size, not on what it filled.

Scenario (plain strategy API, both simulators): go long 2 @ 100 with a partial stop-loss (1 @ 95) and a
full-size take-profit (2 @ 110). The stop-loss fills first (position 2 -> 1), then the take-profit
(reduce-only, qty 2) executes against a position of 1: it can only fill 1 (a reduce-only fill never
flips), but the wallet is charged the fee of 2 * 110.

Run:  cd /tmp/wt/hc03 && PYTHONPATH=/tmp/wt/hc03 /venv/bin/python /tmp/wt/hc03.out/finding_1.py
"""
import sys
import warnings
warnings.filterwarnings('ignore')

from jesse import research
from jesse.strategies import Strategy
import jesse.helpers as jh

EXCHANGE = 'Binance Perpetual Futures'
FEE, LEV, BAL = 0.001, 2, 10_000.0


class RefAccount:
    """average-cost margin account written from the property text (single symbol is enough here)"""
    def __init__(self):
        self.wallet, self.qty, self.entry = BAL, 0.0, None

    def fill(self, qty, price, reduce_only):
        if reduce_only:  # a reduce-only fill never increases or flips the position
            if self.qty == 0 or self.qty * qty > 0:
                qty = 0.0
            elif abs(qty) > abs(self.qty):
                qty = -self.qty
        self.wallet -= abs(qty) * price * FEE  # fee charged on every FILL
        if qty == 0:
            return
        if self.qty == 0 or self.qty * qty > 0:  # open / increase: average cost
            tot = abs(self.qty) + abs(qty)
            self.entry = price if self.qty == 0 else (abs(self.qty) * self.entry + abs(qty) * price) / tot
            self.qty += qty
        else:  # reduce / close / flip: realise PnL on the closed part
            closed = min(abs(qty), abs(self.qty))
            self.wallet += closed * (price - self.entry) * (1 if self.qty > 0 else -1)
            new = round(self.qty + qty, 12)
            if new == 0:
                self.entry = None
            elif new * self.qty < 0:
                self.entry = price
            self.qty = new


ROWS = []


class PartialStopFullTarget(Strategy):
    ref = None

    def should_long(self):
        return self.index == 0

    def should_cancel_entry(self):
        return False

    def go_long(self):
        self.buy = 2, self.price          # market, 2 @ 100
        self.stop_loss = 1, 95            # reduce-only stop for HALF the position
        self.take_profit = 2, 110         # reduce-only limit for the FULL original size

    def _record(self, what, order):
        self.ref.fill(order.qty, order.price, order.reduce_only)
        ex = self.position.exchange
        ROWS.append((what, order.qty, order.price, order.reduce_only, self.position.qty,
                     ex.wallet_balance, self.ref.wallet, ex.available_margin))

    def on_open_position(self, order): self._record('open', order)
    def on_reduced_position(self, order): self._record('reduce', order)
    def on_close_position(self, order): self._record('close', order)


def run(fast_mode):
    ROWS.clear()
    PartialStopFullTarget.ref = RefAccount()
    closes = [100, 100, 94, 100, 111, 111, 111, 111, 111, 111]   # dips through 95, then rallies through 110
    candles = research.candles_from_close_prices(closes)
    cfg = {'starting_balance': BAL, 'fee': FEE, 'type': 'futures', 'futures_leverage': LEV,
           'futures_leverage_mode': 'cross', 'exchange': EXCHANGE, 'warm_up_candles': 0}
    routes = [{'exchange': EXCHANGE, 'strategy': PartialStopFullTarget, 'symbol': 'BTC-USDT', 'timeframe': '1m'}]
    data = {jh.key(EXCHANGE, 'BTC-USDT'): {'exchange': EXCHANGE, 'symbol': 'BTC-USDT', 'candles': candles}}
    research.backtest(cfg, routes, [], data, fast_mode=fast_mode)
    return list(ROWS)


failed = False
for fast in (False, True):
    rows = run(fast)
    print(f'--- fast_mode={fast} ---')
    print('event   order_qty  price  reduce_only  pos_qty_after  jesse_wallet      reference_wallet')
    for what, q, p, ro, pq, w, rw, am in rows:
        flag = '' if abs(w - rw) < 1e-9 else '   <-- differs by %.6f' % (rw - w)
        print(f'{what:7s} {q:9.3f} {p:6.1f}  {str(ro):11s} {pq:13.3f}  {w:16.6f}  {rw:16.6f}{flag}')
    assert len(rows) == 3, rows
    last = rows[-1]
    # the position closed, nothing is resting: wallet == available margin == reference wallet is required
    if abs(last[5] - last[6]) > 1e-9:
        failed = True

print()
print('observed : the closing reduce-only take-profit (qty -2 against a position of +1) filled 1 BTC at 110,')
print('           yet Position._on_executed_order charged fee on order.qty*price = 2*110*%.3f = %.3f' % (FEE, 2 * 110 * FEE))
print('required : fee charged on every fill (1*110*%.3f = %.3f); reduce-only fills never exceed the position,' % (FEE, 110 * FEE))
print('           so the wallet must equal the reference account (10004.595), not 10004.485')
if failed:
    print('FAIL: an oversize reduce-only order is charged the fee of its full nominal size, so the wallet balance '
          '(and available margin) falls below the average-cost reference account fed the same executed orders')
    sys.exit(1)
print('no violation observed')
