"""
C03 finding 2 (same root cause as finding 1, zero-fill variant): a reduce-only order that fills NOTHING
is still charged a full fee.

Sequence (order/position/exchange level, one symbol, leverage 3, fee 0.1%):
  1. market buy 1 @ 100                       -> long 1
  2. submit reduce-only stop  sell 1 @ 90     (protective stop, submitted against the open long)
  3. market sell 2 @ 100 (NOT reduce-only)    -> flips to short 1 (the position never reports "closed",
                                                 so nothing is cancelled - the strategy layer sees the
                                                 flip as an 'opening_position' event as well)
  4. the resting reduce-only sell 1 @ 90 executes while the position is SHORT: it must not increase the
     position (and does not), so it fills 0 - but the wallet is charged 1*90*fee.

Run:  cd /tmp/wt/hc03 && PYTHONPATH=/tmp/wt/hc03 /venv/bin/python /tmp/wt/hc03.out/finding_2.py
"""
import sys
import warnings
warnings.filterwarnings('ignore')

import jesse.helpers as jh
import jesse.services.selectors as selectors
from jesse.config import config, reset_config
from jesse.enums import exchanges, order_types, sides
from jesse.models import Order
from jesse.routes import router
from jesse.store import store
from jesse.strategies import Strategy

EX, SYM = exchanges.SANDBOX, 'BTC-USDT'
FEE, LEV, BAL = 0.001, 3, 1000.0


class Dummy(Strategy):
    def should_long(self): return False
    def go_long(self): pass


class StubStrategy:  # what Position needs from its strategy: leverage + trade bookkeeping attributes
    timeframe, name, trades_count, leverage = '1m', 'stub', 0, LEV
    def _on_updated_position(self, order): pass


reset_config()
c = config['env']['exchanges'][EX]
c['fee'], c['balance'], c['type'], c['futures_leverage'], c['futures_leverage_mode'] = FEE, BAL, 'futures', LEV, 'cross'
config['app']['trading_mode'] = 'backtest'
router.initiate([{'exchange': EX, 'symbol': SYM, 'timeframe': '1m', 'strategy': Dummy}], [])
ex = selectors.get_exchange(EX)
pos = selectors.get_position(EX, SYM)
pos.strategy = StubStrategy()


def submit(side, typ, qty, price, reduce_only):
    o = Order({'id': jh.generate_unique_id(), 'symbol': SYM, 'exchange': EX, 'side': side, 'type': typ,
               'reduce_only': reduce_only, 'qty': jh.prepare_qty(qty, side), 'price': price})
    store.orders.add_order(o)
    return o


def show(step):
    print(f'{step:46s} qty={pos.qty:5.1f} entry={pos.entry_price}  wallet={ex.wallet_balance:.6f}  '
          f'available_margin={ex.available_margin:.6f}')


pos.current_price = 100.0
submit(sides.BUY, order_types.MARKET, 1, 100.0, False).execute()
show('1. market buy 1 @ 100')
stop = submit(sides.SELL, order_types.STOP, 1, 90.0, True)
show('2. submit reduce-only stop sell 1 @ 90')
submit(sides.SELL, order_types.MARKET, 2, 100.0, False).execute()
show('3. market sell 2 @ 100 (flip to short 1)')
assert pos.qty == -1 and stop.is_active

# reference account so far: fees 1*100*f + 2*100*f, realised PnL 0
ref_wallet = BAL - 100 * FEE - 200 * FEE
assert abs(ex.wallet_balance - ref_wallet) < 1e-9

pos.current_price = 90.0
wallet_before, qty_before, entry_before = ex.wallet_balance, pos.qty, pos.entry_price
stop.execute()
show('4. reduce-only sell 1 @ 90 executes on a SHORT')
charged = wallet_before - ex.wallet_balance

# reference: the reduce-only order is on the same side as the position -> fill 0 -> fee 0, nothing changes
ref_avail = ref_wallet - (1 * 100.0 / LEV) + (100.0 - 90.0) * 1   # margin of short 1 @ 100 plus unrealised PnL at 90
print()
print(f'observed : position unchanged (qty {qty_before} -> {pos.qty}, entry {entry_before} -> {pos.entry_price}) '
      f'but wallet charged {charged:.6f} (= 1*90*{FEE}); wallet={ex.wallet_balance:.6f}, '
      f'available_margin={ex.available_margin:.6f}')
print(f'required : fee is charged on fills only; this reduce-only order filled nothing, so wallet must stay '
      f'{ref_wallet:.6f} and available margin {ref_avail:.6f}')
if pos.qty == qty_before and abs(charged) > 1e-12:
    print('FAIL: a reduce-only order that fills nothing (same side as the position after a flip) still charges '
          'a fee on its nominal size, so wallet balance and available margin drift from the reference account')
    sys.exit(1)
print('no violation observed')
