"""
C15 finding 2: bollinger_bands() on FEWER candles than period-1 writes past the end of a heap buffer.

jesse/indicators/bollinger_bands.py:_moving_std_numba allocates `result = np.empty(n)` and then runs
    for i in range(period - 1): result[i] = np.nan
without checking n >= period - 1.  Numba does no bounds checking, so for n < period-1 the loop stores
NaNs behind the array: the call "works" (returns all-NaN bands, which is the right answer for an input
shorter than the period - sma, ema, stddev, donchian ... return exactly that) but it has destroyed
malloc's bookkeeping / neighbouring objects.  One to three calls with the DEFAULT period (20) on 10 candles
kill the interpreter a moment later (SIGABRT "corrupted size vs. prev_size", "double free or corruption",
"malloc(): unsorted double linked list corrupted", or SIGSEGV); when it does not crash, arbitrary other
memory has been overwritten with NaN bit patterns.

Run:  cd /tmp/wt/pc15 && PYTHONPATH=/tmp/wt/pc15 /venv/bin/python /tmp/wt/pc15.out/finding_2.py
"""
import os
import subprocess
import sys
import warnings

warnings.filterwarnings('ignore')
import numpy as np

CHILD = r'''
import warnings; warnings.filterwarnings('ignore')
import sys, numpy as np
import jesse.indicators as ta
n, period, reps = int(sys.argv[1]), int(sys.argv[2]), int(sys.argv[3])
rng = np.random.default_rng(1)
close = 100 + np.cumsum(rng.normal(0, 1, n))
candles = np.column_stack([np.arange(n) * 60000.0, close, close, close + 1, close - 1, np.full(n, 5.0)])
for _ in range(reps):
    bb = ta.bollinger_bands(candles, period=period, sequential=True)
    junk = [np.zeros(k) for k in range(1, 40)]     # ordinary allocations after the call
print('returned', bb.upperband.tolist(), flush=True)
'''

env = dict(os.environ, PYTHONPATH=os.pathsep.join([os.getcwd()] + sys.path), PYTHONWARNINGS='ignore')


def run_child(n, period, reps):
    p = subprocess.run([sys.executable, '-c', CHILD, str(n), str(period), str(reps)], env=env,
                       capture_output=True, text=True, timeout=120)
    err = [l for l in p.stderr.splitlines() if l and 'Warning' not in l and 'pkg_resources' not in l and 'msg = ' not in l]
    return p.returncode, p.stdout.strip(), (err[-1] if err else '')


print("1) the index arithmetic, deterministically (the same function without the JIT, i.e. with bounds checks):")
from jesse.indicators.bollinger_bands import _moving_std_numba
oob = 0
for n, period in ((10, 20), (3, 20), (1, 5), (18, 20), (19, 20)):
    try:
        out = _moving_std_numba.py_func(np.arange(n, dtype=float), period)
        print(f"   n={n:>2} period={period}: ok, returns {n} values")
    except IndexError as e:
        oob += 1
        print(f"   n={n:>2} period={period}: IndexError: {e}   <- the compiled version performs this store, "
              f"{period - 1 - n} doubles behind the buffer")

print("\n2) the public API in fresh interpreters (exit code < 0 = killed by a signal):")
crashes = 0
runs = [(10, 20, 3), (3, 20, 3), (30, 60, 3), (19, 20, 3)]   # the last one is in bounds (control)
for n, period, reps in runs:
    rc, out, err = run_child(n, period, reps)
    verdict = 'clean exit' if rc == 0 else f'DIED (rc={rc}) {err}'
    if rc != 0:
        crashes += 1
    print(f"   bollinger_bands({n} candles, period={period}) x{reps}: {out[:60] or '<no output>'} ... {verdict}")

print("\n3) what the other window indicators do with the same short input (and what the property expects):")
import jesse.indicators as ta
c = np.column_stack([np.arange(10) * 60000.0] + [np.linspace(100, 109, 10)] * 4 + [np.full(10, 5.0)])
print("   sma   :", ta.sma(c, 20, sequential=True).tolist())
print("   stddev:", ta.stddev(c, 20, sequential=True).tolist())
print("   donchian upper:", ta.donchian(c, 20, sequential=True).upperband.tolist())

print()
print("property requires: for inputs shorter than the period an indicator has no trailing window and yields NaN (like")
print("sma/ema/stddev/donchian do) - it must not write outside its output array, crash the process or corrupt other data.")
if oob or crashes:
    print(f"FAIL: bollinger_bands on fewer than period-1 candles stores NaNs behind its output buffer "
          f"({oob} out-of-bounds index patterns, {crashes} of {len(runs)} fresh interpreters killed by heap corruption)")
    sys.exit(1)
print("OK")
