"""
C15 finding 1: cci() reports +66.67 / -66.67 on perfectly FLAT candles.

Textbook: CCI = (TP - SMA(TP)) / (0.015 * MD),  MD = mean |TP_j - SMA(TP)| over the window.
On a window of identical candles TP == SMA and MD == 0 (0/0); jesse's own rule for that case
is `if md == 0.0: result = 0.0`.  But sum(tp)/period is computed in floating point and for most
prices it differs from tp by one ulp e, so md == |e| != 0 and the result is e / (0.015*|e|) =
+-66.67 - a value that is pure rounding noise (its sign changes with the period and the price).

Run:  cd /tmp/wt/pc15 && PYTHONPATH=/tmp/wt/pc15 /venv/bin/python /tmp/wt/pc15.out/finding_1.py
"""
import sys
import warnings
from fractions import Fraction

warnings.filterwarnings('ignore')
import numpy as np
import jesse.indicators as ta


def flat_candles(n, price, volume=0.0, t0=0):
    t = t0 + np.arange(n) * 60_000.0
    p = np.full(n, float(price))
    return np.column_stack([t, p, p, p, p, np.full(n, float(volume))])


def exact_cci_terms(candles, period):
    """numerator (TP - SMA) and mean deviation of the LAST window in exact rational arithmetic"""
    w = candles[-period:]
    tp = [(Fraction(r[3]) + Fraction(r[4]) + Fraction(r[2])) / 3 for r in w]
    sma = sum(tp) / period
    md = sum(abs(x - sma) for x in tp) / period
    return tp[-1] - sma, md


violations = 0

print("1) 40 identical candles, default period 14 (value of the last candle)")
for price in (1.37, 1.74, 2.85, 3.22, 0.1, 19000.01, 43210.7):
    c = flat_candles(40, price)
    got = ta.cci(c, 14, sequential=False)
    num, md = exact_cci_terms(c, 14)
    print(f"   price {price:>9}: jesse cci = {got:+.4f}   exact TP-SMA = {num}, exact MD = {md}  -> 0/0, jesse's rule says 0")
    if got != 0:
        violations += 1

print("\n2) same flat series (price 0.1), other periods: the sign is arbitrary")
c = flat_candles(100, 0.1)
row = {P: ta.cci(c, P, sequential=False) for P in (5, 7, 10, 14, 15, 20, 30, 45, 60)}
print("   ", {P: round(v, 2) for P, v in row.items()})
violations += sum(1 for v in row.values() if v != 0)

print("\n3) how common: 2-decimal prices 1.00 .. 1000.00, flat window, periods 14 and 20")
for P in (14, 20):
    bad = tot = 0
    for cents in range(100, 100001, 37):
        tot += 1
        if ta.cci(flat_candles(P + 3, cents / 100), P, sequential=False) != 0:
            bad += 1
    print(f"    period {P}: {bad} of {tot} prices give a non-zero CCI on a flat window")
    violations += bad

print("\n4) random candles followed by a quiet stretch of no-trade candles (what jesse itself stores for a gap), 10 seeds")
n = 60
hit = 0
for seed in range(10):
    rng = np.random.default_rng(seed)
    close = np.round(25.0 + np.cumsum(rng.normal(0, 0.05, n)), 2)
    open_ = np.concatenate(([close[0]], close[:-1]))
    high = np.maximum(open_, close) + 0.01
    low = np.minimum(open_, close) - 0.01
    live = np.column_stack([np.arange(n) * 60_000.0, open_, close, high, low, rng.uniform(1, 9, n)])
    quiet = flat_candles(30, close[-1], 0.0, t0=n * 60_000.0)
    seq = ta.cci(np.vstack([live, quiet]), 14, sequential=True)
    tail = seq[n + 14:]          # windows that contain only flat candles
    print(f"    seed {seed}: last traded price {close[-1]:.2f}; cci of the last 18 candles: {np.round(seq[-18:], 1).tolist()}")
    if np.any(tail != 0):
        hit += 1
print(f"    {hit} of 10 series end with a constant {chr(177)}66.67 although nothing moves any more")
violations += hit

print()
print("property requires: a value that is a function of the trailing window matches the definition; on a flat window")
print("TP == SMA and MD == 0 exactly, so the result must be the md == 0 convention (0), not +-66.67 rounding noise.")
if violations:
    print("FAIL: cci returns +66.67 or -66.67 (sign depending on period/price rounding) on windows of identical candles, because its md == 0 guard is defeated by a one-ulp error in sum/period")
    sys.exit(1)
print("OK")
