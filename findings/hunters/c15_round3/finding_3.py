"""
C15 finding 3: var() goes NEGATIVE and the Bollinger band width is wrong (or collapses to 0) at large prices.

var.py computes          mean(x**2) - mean(x)**2
bollinger_bands.py computes  sqrt(sum(x*x)/period - mean*mean)   (clipped at 0)
i.e. the one-pass "E[x^2] - E[x]^2" formula, which cancels catastrophically as soon as the price is large
compared with its variation inside the window.  stddev() (two-pass np.std) is fine, so the three indicators
that the property groups together ("standard deviation", "Bollinger bands", "volatility measures") disagree
with each other and with the definition  Var = mean((x - mean(x))**2) >= 0.

Run:  cd /tmp/wt/pc15 && PYTHONPATH=/tmp/wt/pc15 /venv/bin/python /tmp/wt/pc15.out/finding_3.py
"""
import math
import sys
import warnings

warnings.filterwarnings('ignore')
import numpy as np
import jesse.indicators as ta


def ref_var(x, period):
    """textbook population variance of each trailing window, two-pass with exact summation"""
    out = np.full(len(x), np.nan)
    for i in range(period - 1, len(x)):
        w = x[i - period + 1:i + 1]
        m = math.fsum(w) / period
        out[i] = math.fsum((v - m) ** 2 for v in w) / period
    return out


def candles_from_close(close, spread):
    n = len(close)
    return np.column_stack([np.arange(n) * 60_000.0, close, close, close + spread, close - spread, np.full(n, 10.0)])


bad = 0

print("A) FLAT candles (constant price): the variance is exactly 0, a volatility measure must not be negative")
neg = tot = 0
worst = (0.0, None)
for price in (0.1, 0.3, 7.77, 99.99, 1234.56, 19000.01, 43210.7, 50000.1):
    c = candles_from_close(np.full(100, price), 0.0)
    for period in range(2, 61):
        v = np.nanmin(ta.var(c, period, sequential=True))
        tot += 1
        if v < 0:
            neg += 1
            if v < worst[0]:
                worst = (v, (price, period))
print(f"   var < 0 for {neg} of {tot} (price, period) combinations; most negative {worst[0]:.3e} at price/period {worst[1]}")
bb = ta.bollinger_bands(candles_from_close(np.full(100, 50000.1), 0.0), 20, sequential=True)
print(f"   bollinger_bands(period 20) on constant 50000.1: upper - middle = {np.nanmax(bb.upperband - bb.middleband):.6f} (must be 0)")
bad += neg

print("\nB) huge prices (random walk around 1e9 with steps of ~1): all three should describe the same windows")
rng = np.random.default_rng(6)
close = 1e9 + np.cumsum(rng.normal(0, 1.0, 300))
c = candles_from_close(close, 1.0)
for period in (5, 14, 20, 45):
    rv = ref_var(close, period)
    v = ta.var(c, period, sequential=True)
    sd = ta.stddev(c, period, sequential=True)
    b = ta.bollinger_bands(c, period, sequential=True)
    dev = (b.upperband - b.lowerband) / 4            # devup = devdn = 2
    m = ~np.isnan(rv)
    print(f"   period {period:>2}: true variance in [{rv[m].min():.3f}, {rv[m].max():.3f}] | var(): min {np.nanmin(v):.1f} max {np.nanmax(v):.1f}"
          f" | stddev()^2 max rel err {np.max(np.abs(sd[m] ** 2 - rv[m]) / rv[m]):.1e}"
          f" | bollinger dev: max rel err {np.max(np.abs(dev[m] - np.sqrt(rv[m])) / np.sqrt(rv[m])):.2f}, bands collapsed (width 0) on {int(np.sum(dev[m] == 0))} of {int(m.sum())} candles")
    if np.nanmin(v) < 0:
        bad += 1
    if np.max(np.abs(dev[m] - np.sqrt(rv[m])) / np.sqrt(rv[m])) > 1e-3:
        bad += 1

print("\nC) it is not only astronomically large prices: 100000 with one-cent noise, 1e6 with ten-cent noise")
for base, sigma in ((1e5, 0.01), (1e6, 0.1), (1e7, 1.0)):
    rng = np.random.default_rng(3)
    close = base + rng.normal(0, sigma, 200)
    c = candles_from_close(close, sigma)
    rv = ref_var(close, 20)
    m = ~np.isnan(rv)
    b = ta.bollinger_bands(c, 20, sequential=True)
    dev = (b.upperband - b.lowerband) / 4
    v = ta.var(c, 20, sequential=True)
    e_bb = np.max(np.abs(dev[m] - np.sqrt(rv[m])) / np.sqrt(rv[m]))
    e_var = np.max(np.abs(v[m] - rv[m]) / rv[m])
    e_sd = np.max(np.abs(ta.stddev(c, 20, sequential=True)[m] - np.sqrt(rv[m])) / np.sqrt(rv[m]))
    print(f"   price {base:.0e} noise {sigma}: max relative error  bollinger dev {e_bb:.1%}   var {e_var:.1%}   stddev {e_sd:.1e}")
    if e_bb > 1e-3 or e_var > 1e-3:
        bad += 1

print()
print("property requires: values that are a function of a trailing window agree with the textbook definition for huge and")
print("tiny prices alike, upper/lower bands sit at middle +- k*std of the window, and volatility measures are non-negative.")
if bad:
    print("FAIL: var() returns negative variances (down to about -900 at prices of 1e9, and tiny negatives on flat candles) "
          "and bollinger_bands' deviation is off by several percent (price 1e5, cent-sized moves) up to thousands of percent, or collapses to 0, at large prices, "
          "because both use the cancelling E[x^2]-E[x]^2 formula")
    sys.exit(1)
print("OK")
