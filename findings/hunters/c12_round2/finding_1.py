"""
C12 finding 1: the fast simulator purges executed orders from the active-order list only once per
chunk (the normal simulator does it every minute), so self.entry_orders / self.active_exit_orders
show a different order book to the strategy at the first cycle after a fill. A strategy that reads
self.entry_orders therefore trades differently under fast_mode=True.

Scope check (done below on the normal run): one symbol, 5m trading candles, never more than one
resting-order fill per 5m span, cross margin => no liquidation, no exits before the session end.

Run:  cd /tmp/wt/gc12 && PYTHONPATH=/tmp/wt/gc12 /venv/bin/python /tmp/wt/gc12.out/finding_1.py
"""
import sys, warnings
warnings.filterwarnings('ignore')
import numpy as np
import jesse.helpers as jh
from jesse.strategies import Strategy
from jesse import research
from jesse.store import store

EX, SYM, TF, TF_MIN = 'Sandbox', 'BTC-USDT', '5m', 5
REF, SEEN = {}, []


class ScaleInOnce(Strategy):
    """Buy the dip with a resting limit; once in a position and NO entry order is pending,
    place one scale-in limit (qty 2) 3 below the market."""
    def should_long(self): return self.index == 0
    def should_short(self): return False
    def should_cancel_entry(self): return False

    def go_long(self):
        self.buy = 1, self.price - 2

    def update_position(self):
        SEEN.append((self.index, [(o.type, o.price, o.status) for o in self.entry_orders]))
        if not self.entry_orders and not self.vars.get('scaled'):
            self.vars['scaled'] = True
            self.buy = 2, self.price - 3

    def terminate(self):
        REF['trades'] = store.completed_trades      # keep the object: the session-end close lands in it


def candles():
    t0 = 1_600_000_000_000 - 1_600_000_000_000 % 86_400_000
    closes = [100, 100, 100, 100, 100,   # candle 0: entry limit @98 submitted at its close
              99, 97, 99, 100, 101,      # candle 1: limit @98 fills in its 2nd minute (one fill)
              102, 102, 102, 102, 102,   # candle 2
              101, 100, 99, 100, 101,    # candle 3: low 99
              102, 103, 103, 103, 103]   # candle 4
    rows, prev = [], 100.0
    for i, c in enumerate(closes):
        rows.append([t0 + i * 60_000, prev, c, max(prev, c), min(prev, c), 10])
        prev = c
    return np.array(rows, dtype=float)


def run(fast):
    REF.clear(); SEEN.clear()
    cfg = {'starting_balance': 10_000, 'fee': 0, 'type': 'futures', 'futures_leverage': 2,
           'futures_leverage_mode': 'cross', 'exchange': EX, 'warm_up_candles': 0}
    c = candles()
    res = research.backtest(
        cfg, [{'exchange': EX, 'strategy': ScaleInOnce, 'symbol': SYM, 'timeframe': TF}], [],
        {jh.key(EX, SYM): {'exchange': EX, 'symbol': SYM, 'candles': c.copy()}}, fast_mode=fast)
    start = int(c[0][0])
    orders, trades = [], []
    for t in REF['trades'].trades:
        trades.append((t.type, float(t.qty), float(t.entry_price), float(t.exit_price)))
        for o in t.orders:
            orders.append((o.side, o.type, float(o.qty), float(o.price), (int(o.executed_at) - start) // 60_000))
    return {'orders': orders, 'trades': trades, 'balance': res['metrics']['finishing_balance'], 'seen': list(SEEN)}


normal, fast = run(False), run(True)

# scope: at most one resting (non-market) fill per trading-candle span in the NORMAL run
spans = {}
for side, typ, qty, price, minute in normal['orders']:
    if typ != 'MARKET':
        spans[(minute - 1) // TF_MIN] = spans.get((minute - 1) // TF_MIN, 0) + 1
assert all(v <= 1 for v in spans.values()), spans
print('scope: resting fills per 5m span in the normal run:', spans, '- cross margin, no liquidation')

for name, r in (('normal', normal), ('fast  ', fast)):
    print(f'--- {name} simulator')
    print('  self.entry_orders seen in update_position (cycle index, orders):')
    for s in r['seen']:
        print('    ', s)
    print('  executed orders (side, type, qty, price, fill minute):')
    for o in r['orders']:
        print('    ', o)
    print('  closed trades (type, qty, entry, exit):', r['trades'])
    print('  final balance:', r['balance'])

print('\nproperty C12 requires: identical executed orders, closed trades and final balance in both simulators')
same = all(normal[k] == fast[k] for k in ('orders', 'trades', 'balance'))
if same:
    print('PASS: both simulators agree')
    sys.exit(0)
print('FAIL: fast mode keeps the executed entry order in self.entry_orders until the end of the chunk '
      '(update_active_orders runs per chunk, not per minute), so the strategy scales in one candle later at '
      'another price: executed orders, closed trade and final balance differ from the normal simulator')
sys.exit(1)
