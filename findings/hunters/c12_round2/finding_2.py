"""
C12 finding 2: the daily equity sample (store.app.daily_balance, read by strategies through
self.daily_balances / self.metrics and used for the session metrics) is taken at a different
moment by the two simulators. The normal one samples after the 1m candle with index 1440 (the
first minute of day 2) has been applied; the fast one samples after the chunk that ENDS at index
1439, i.e. one candle earlier. With an open position the two samples differ, so a strategy with an
equity circuit-breaker on self.daily_balances trades differently under fast_mode=True.

Scope check: one symbol, 1h trading candles, no resting order at all (market entry, market exit),
cross margin => no liquidation.

Run:  cd /tmp/wt/gc12 && PYTHONPATH=/tmp/wt/gc12 /venv/bin/python /tmp/wt/gc12.out/finding_2.py
"""
import sys, warnings
warnings.filterwarnings('ignore')
import numpy as np
import jesse.helpers as jh
from jesse.strategies import Strategy
from jesse import research
from jesse.store import store

EX, SYM, TF = 'Sandbox', 'BTC-USDT', '1h'
REF, SEEN = {}, []


class EquityBreaker(Strategy):
    """Long 10 units at market at the first candle; flatten when the last daily equity sample
    is below the starting balance."""
    def should_long(self): return self.index == 0
    def should_short(self): return False
    def should_cancel_entry(self): return False

    def go_long(self):
        self.buy = 10, self.price

    def update_position(self):
        if len(self.daily_balances) > 1:
            SEEN.append((self.index, list(self.daily_balances)))
            if self.daily_balances[-1] < 10_000:
                self.liquidate()

    def terminate(self):
        REF['trades'] = store.completed_trades
        REF['daily'] = store.app.daily_balance


def candles():
    t0 = 1_600_000_000_000 - 1_600_000_000_000 % 86_400_000
    n = 26 * 60
    closes = np.full(n, 100.0)
    closes[1440:] = 98.0            # the first minute of day 2 drops from 100 to 98 ...
    closes[1500:] = 99.0            # ... and the price recovers to 99 one hour later
    rows, prev = [], 100.0
    for i, c in enumerate(closes):
        rows.append([t0 + i * 60_000, prev, c, max(prev, c), min(prev, c), 10])
        prev = c
    return np.array(rows, dtype=float)


def run(fast):
    REF.clear(); SEEN.clear()
    cfg = {'starting_balance': 10_000, 'fee': 0, 'type': 'futures', 'futures_leverage': 2,
           'futures_leverage_mode': 'cross', 'exchange': EX, 'warm_up_candles': 0}
    c = candles()
    res = research.backtest(
        cfg, [{'exchange': EX, 'strategy': EquityBreaker, 'symbol': SYM, 'timeframe': TF}], [],
        {jh.key(EX, SYM): {'exchange': EX, 'symbol': SYM, 'candles': c.copy()}}, fast_mode=fast)
    start = int(c[0][0])
    orders, trades = [], []
    for t in REF['trades'].trades:
        trades.append((t.type, float(t.qty), float(t.entry_price), float(t.exit_price)))
        for o in t.orders:
            orders.append((o.side, o.type, float(o.qty), float(o.price), (int(o.executed_at) - start) // 60_000))
    m = res['metrics']
    return {'orders': orders, 'trades': trades, 'balance': m['finishing_balance'],
            'daily': [float(x) for x in REF['daily']], 'max_dd': m['max_drawdown'], 'seen': SEEN[:1]}


normal, fast = run(False), run(True)
assert all(o[1] == 'MARKET' for o in normal['orders']), 'scope: no resting order is ever filled'
print('scope: the normal run fills market orders only (0 resting fills per 1h span); cross margin, no liquidation')
for name, r in (('normal', normal), ('fast  ', fast)):
    print(f'--- {name} simulator')
    print('  self.daily_balances first seen by the strategy (cycle index, samples):', r['seen'])
    print('  executed orders (side, type, qty, price, fill minute):')
    for o in r['orders']:
        print('    ', o)
    print('  closed trades (type, qty, entry, exit):', r['trades'])
    print('  final balance:', r['balance'], '| daily samples:', r['daily'], '| max_drawdown:', r['max_dd'])

print('\nproperty C12 requires: identical executed orders, closed trades and final balance in both simulators')
same = all(normal[k] == fast[k] for k in ('orders', 'trades', 'balance'))
if same:
    print('PASS: both simulators agree')
    sys.exit(0)
print('FAIL: fast mode takes the daily equity sample one 1m candle earlier than the normal simulator '
      '(after index 1439 instead of 1440), so a strategy reading self.daily_balances exits at a different '
      'candle: executed orders, closed trade and final balance differ')
sys.exit(1)
