"""
C15 finding 1: jesse.indicators.di (+DI / -DI, ADX family) leaves its range [0, 100] and is a multiple of the
textbook value, because the directional-movement smoother is seeded with a SUM of the first `period` values while
its recurrence (and the ATR it is divided by) are in AVERAGE form.

Run:  cd /tmp/wt/hc15 && PYTHONPATH=/tmp/wt/hc15 /venv/bin/python /tmp/wt/hc15.out/finding_1.py
"""
import sys
import warnings

import numpy as np

warnings.filterwarnings('ignore')
import jesse.indicators as ta


def candles_random(n, seed):
    rng = np.random.default_rng(seed)
    c = 100 * np.exp(np.cumsum(rng.normal(0, 0.01, n)))
    o = np.roll(c, 1); o[0] = c[0]
    h = np.maximum(o, c) * (1 + np.abs(rng.normal(0, 0.003, n)))
    l = np.minimum(o, c) * (1 - np.abs(rng.normal(0, 0.003, n)))
    v = rng.uniform(1, 100, n)
    t = 1.6e12 + 60000 * np.arange(n)
    return np.column_stack([t, o, c, h, l, v])


def candles_rising(n):
    # monotone series: every candle opens at the previous close and closes 1 higher; high=close, low=open
    c = 100.0 + np.arange(n)
    o = np.r_[c[0], c[:-1]]
    t = 1.6e12 + 60000 * np.arange(n)
    return np.column_stack([t, o, c, np.maximum(o, c), np.minimum(o, c), np.full(n, 10.0)])


def di_reference(candles, period):
    """Wilder's textbook +DI/-DI: 100 * smoothed(+-DM) / smoothed(TR), the SAME Wilder smoothing applied to all three
    (seed = sum of the first `period` values, then S = S - S/period + x). Since +-DM <= TR bar by bar, 0<=DI<=100."""
    h, l, c = candles[:, 3], candles[:, 4], candles[:, 2]
    n = len(c)
    tr = np.zeros(n); pdm = np.zeros(n); mdm = np.zeros(n)
    for i in range(1, n):
        tr[i] = max(h[i] - l[i], abs(h[i] - c[i - 1]), abs(l[i] - c[i - 1]))
        up, dn = h[i] - h[i - 1], l[i - 1] - l[i]
        if up > dn and up > 0: pdm[i] = up
        if dn > up and dn > 0: mdm[i] = dn

    def smooth(x):
        out = np.full(n, np.nan)
        out[period] = x[1:period + 1].sum()
        for i in range(period + 1, n):
            out[i] = out[i - 1] - out[i - 1] / period + x[i]
        return out
    T, P, M = smooth(tr), smooth(pdm), smooth(mdm)
    with np.errstate(all='ignore'):
        return np.where(T == 0, 0, 100 * P / T), np.where(T == 0, 0, 100 * M / T)


violations = []

print("== A. random candles (seed 7, 300 candles), sequential, several periods")
cs = candles_random(300, 7)
for period in (2, 5, 14, 30, 60):
    got = ta.di(cs, period, sequential=True)
    ref_p, ref_m = di_reference(cs, period)
    i = period  # first defined index
    mx = max(np.nanmax(got.plus), np.nanmax(got.minus))
    print(f"period={period:2d}: first value idx {i}: jesse +DI={got.plus[i]:9.3f} textbook +DI={ref_p[i]:7.3f} "
          f"ratio={got.plus[i] / ref_p[i] if ref_p[i] else float('nan'):6.2f} | max(jesse DI over series)={mx:9.3f}")
    if mx > 100 + 1e-9:
        violations.append(f"period {period}: DI reaches {mx:.1f} > 100")

print("\n== B. monotone rising series: textbook +DI is exactly 100 (all movement is upward)")
cs = candles_rising(120)
got = ta.di(cs, 14, sequential=True)
ref_p, _ = di_reference(cs, 14)
print("idx   jesse +DI   textbook +DI")
for i in (14, 15, 20, 40, 100):
    print(f"{i:3d} {got.plus[i]:11.3f} {ref_p[i]:11.3f}")
if np.nanmax(got.plus) > 100 + 1e-9:
    violations.append(f"rising series, period 14: +DI starts at {got.plus[14]:.1f} (= 14 x 100)")

print("\n== C. the default non-sequential call (uses the last 240 candles) with period 60 on 500 random candles")
cs = candles_random(500, 2)
got = ta.di(cs, 60)  # sequential=False
ref_p, ref_m = di_reference(cs[-240:], 60)
print(f"jesse  di(candles, 60)         = (+DI {got.plus:.3f}, -DI {got.minus:.3f})")
print(f"textbook on the same 240 bars  = (+DI {ref_p[-1]:.3f}, -DI {ref_m[-1]:.3f})")
if max(got.plus, got.minus) > 100:
    violations.append(f"di(candles, 60) returns {max(got.plus, got.minus):.1f} > 100")

print("\nProperty C15 requires: bounded oscillators stay inside their range (+DI/-DI in [0, 100]) and the ADX family "
      "matches its textbook definition (a wrong seed must not show up in the values).")
if violations:
    print("Observed:", "; ".join(violations))
    print("FAIL: di() seeds the smoothed +DM/-DM with a sum but smooths (and divides by an ATR) in average form, so "
          "+DI/-DI start `period` times too large and exceed 100 (e.g. 134.8 for di(candles, 60)).")
    sys.exit(1)
print("PASS: DI stays within [0, 100]")
