"""
C15 finding 3: jesse.indicators.smma (Smoothed Moving Average; matype 23 of the `ma` selector) with sequential=True
returns inf/NaN for the most recent candles (and 0.0 / NaN for the rest, all NaN for ~2x that length) once the input
is longer than about 709 / ln(period / (period - 1)) candles:
    period 2 -> 1025 candles, period 3 -> 1752, period 5 -> 3182, period 14 -> 9579, period 60 -> ~42200.
numpy_ewma() evaluates the closed form with the factors (1-alpha)**(n-1) and (1-alpha)**(-i), which under/overflow
in float64 instead of running the recurrence.

Run:  cd /tmp/wt/hc15 && PYTHONPATH=/tmp/wt/hc15 /venv/bin/python /tmp/wt/hc15.out/finding_3.py
"""
import sys
import warnings

import numpy as np

warnings.filterwarnings('ignore')
import jesse.indicators as ta


def candles_random(n, seed):
    rng = np.random.default_rng(seed)
    c = 100 * np.exp(np.cumsum(rng.normal(0, 0.002, n)))
    o = np.roll(c, 1); o[0] = c[0]
    h = np.maximum(o, c) * (1 + np.abs(rng.normal(0, 0.001, n)))
    l = np.minimum(o, c) * (1 - np.abs(rng.normal(0, 0.001, n)))
    v = rng.uniform(1, 100, n)
    t = 1.6e12 + 60000 * np.arange(n)
    return np.column_stack([t, o, c, h, l, v])


def smma_reference(x, period):
    """textbook smoothed MA / Wilder / RMA recurrence: y[t] = y[t-1] + (x[t] - y[t-1]) / period, seeded with x[0].
    (the seed's weight after t steps is (1-1/period)**t, i.e. far below 1e-12 at the end of these series)"""
    y = np.empty(len(x)); y[0] = x[0]
    for t in range(1, len(x)):
        y[t] = y[t - 1] + (x[t] - y[t - 1]) / period
    return y


cs_all = candles_random(10000, 4)
bad = []
print("period  candles   jesse smma[-1]        textbook[-1]      ma(matype=23)[-1]   non-finite / exactly 0.0 values in output")
for period, n in ((2, 1000), (2, 1024), (2, 1025), (2, 1100), (2, 2500), (3, 1700), (3, 1800), (5, 3100), (5, 3200),
                  (14, 9500), (14, 9600)):
    cs = cs_all[:n]
    got = ta.smma(cs, period, 'close', sequential=True)
    via_selector = ta.ma(cs, period, 23, 'close', sequential=True)
    ref = smma_reference(cs[:, 2], period)
    nonfinite = int((~np.isfinite(got)).sum())
    zeros = int((got == 0.0).sum())
    print(f"{period:6d} {n:8d}   {got[-1]!s:20s}  {ref[-1]:.10f}   {via_selector[-1]!s:18s}  {nonfinite} / {zeros} of {n}")
    if not np.isfinite(got[-1]) or abs(got[-1] - ref[-1]) > 1e-6 * ref[-1]:
        bad.append((period, n))

# the recurrence step itself (checked where jesse still returns numbers) is fine, so this is purely the closed form
cs = cs_all[:1000]
got = ta.smma(cs, 2, 'close', sequential=True)
step_err = np.max(np.abs(got[500:] - (got[499:-1] + (cs[500:, 2] - got[499:-1]) / 2)))
print(f"\nrecurrence-step error of jesse smma(period=2) on 1000 candles, indices 500..999: {step_err:.2e}")
print("non-sequential calls only look at the last 240 candles and are not affected:",
      ta.smma(cs_all[:1100], 2), "(sequential=False, 1100 candles)")

print("\nProperty C15 requires: moving averages / recursive smoothers agree with the textbook recurrence and, once the "
      "seed has decayed, in value - for all periods 2..60, every matype of the selector, random candle series.")
if bad:
    print("Observed: NaN/inf instead of the smoothed average for (period, candles) =", bad)
    print("FAIL: smma()/ma(matype=23) with sequential=True returns inf/NaN for the latest candles (and 0.0 or NaN before) once the "
          "series is longer than ~709/ln(p/(p-1)) candles (1025 for period 2, 9579 for period 14): numpy_ewma overflows.")
    sys.exit(1)
print("PASS")
