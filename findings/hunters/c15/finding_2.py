"""
C15 finding 2: jesse.indicators.stoch (slow stochastic) returns NaN for EVERY candle when slowk_matype or
slowd_matype selects a recursive moving average of the `ma` selector (1=EMA, 3=DEMA, 4=TEMA, 6=KAMA, 12=Wilders,
23=SMMA, 32=MWDX, ...).  stoch() hands the raw %K series, which starts with fastk_period-1 NaNs, to ma(); the
recursive averages seed themselves from the first elements (NaN) and never recover.

Run:  cd /tmp/wt/hc15 && PYTHONPATH=/tmp/wt/hc15 /venv/bin/python /tmp/wt/hc15.out/finding_2.py
"""
import sys
import warnings

import numpy as np

warnings.filterwarnings('ignore')
import jesse.indicators as ta


def candles_random(n, seed):
    rng = np.random.default_rng(seed)
    c = 100 * np.exp(np.cumsum(rng.normal(0, 0.01, n)))
    o = np.roll(c, 1); o[0] = c[0]
    h = np.maximum(o, c) * (1 + np.abs(rng.normal(0, 0.003, n)))
    l = np.minimum(o, c) * (1 - np.abs(rng.normal(0, 0.003, n)))
    v = rng.uniform(1, 100, n)
    t = 1.6e12 + 60000 * np.arange(n)
    return np.column_stack([t, o, c, h, l, v])


def raw_k(candles, p):
    """textbook fast %K: 100 * (close - lowest low) / (highest high - lowest low) over the trailing p candles"""
    h, l, c = candles[:, 3], candles[:, 4], candles[:, 2]
    out = np.full(len(c), np.nan)
    for i in range(p - 1, len(c)):
        hh, ll = h[i - p + 1:i + 1].max(), l[i - p + 1:i + 1].min()
        out[i] = 100 * (c[i] - ll) / (hh - ll)
    return out


def ema_over_valid(x, p):
    """textbook EMA (alpha = 2/(p+1), seeded with the SMA of the first p defined values), skipping the warm-up NaNs"""
    out = np.full(len(x), np.nan)
    first = int(np.argmax(~np.isnan(x)))
    a = 2.0 / (p + 1)
    out[first + p - 1] = x[first:first + p].mean()
    for i in range(first + p, len(x)):
        out[i] = a * x[i] + (1 - a) * out[i - 1]
    return out


cs = candles_random(200, 5)
fastk, slowk, slowd = 14, 3, 3

# reference slow stochastic with EMA smoothing (TA-Lib's STOCH with slowk_matype=EMA, slowd_matype=EMA)
k_ref = ema_over_valid(raw_k(cs, fastk), slowk)
d_ref = ema_over_valid(k_ref, slowd)

sane = ta.stoch(cs, fastk, slowk, 0, slowd, 0, sequential=True)          # SMA/SMA works
got = ta.stoch(cs, fastk, slowk, 1, slowd, 1, sequential=True)           # EMA/EMA
got_d_only = ta.stoch(cs, fastk, slowk, 0, slowd, 1, sequential=True)    # SMA %K, EMA %D
last = ta.stoch(cs, fastk, slowk, 1, slowd, 1)                            # non-sequential

print(f"candles: 200 random (seed 5); stoch(fastk={fastk}, slowk={slowk}, slowd={slowd})")
print(f"matype SMA/SMA  : last k={sane.k[-1]:.4f} d={sane.d[-1]:.4f}, NaNs in k: {np.isnan(sane.k).sum()} (warm-up only)")
print(f"textbook EMA/EMA: last k={k_ref[-1]:.4f} d={d_ref[-1]:.4f}, NaNs in k: {np.isnan(k_ref).sum()} (warm-up only)")
print(f"jesse    EMA/EMA: last k={got.k[-1]} d={got.d[-1]}, NaNs in k: {np.isnan(got.k).sum()} of {len(got.k)}, "
      f"NaNs in d: {np.isnan(got.d).sum()} of {len(got.d)}")
print(f"jesse SMA k/EMA d: last d={got_d_only.d[-1]}, NaNs in d: {np.isnan(got_d_only.d).sum()} of {len(got_d_only.d)}")
print(f"jesse EMA/EMA non-sequential: k={last.k} d={last.d}")

# the selected moving average itself is fine on the defined part of the very same series:
rk = raw_k(cs, fastk)
direct = ta.ma(rk[fastk - 1:], period=slowk, matype=1, sequential=True)
print(f"ma(raw %K without the warm-up NaNs, matype=1)[-1] = {direct[-1]:.4f}   (agrees with the textbook value)")

print("\nall-NaN output per recursive matype (slowk_matype=mt):")
dead = []
for mt, name in ((1, 'ema'), (3, 'dema'), (4, 'tema'), (6, 'kama'), (12, 'wilders'), (23, 'smma'), (32, 'mwdx')):
    r = ta.stoch(cs, fastk, slowk, mt, slowd, 0, sequential=True)
    allnan = bool(np.isnan(r.k).all())
    print(f"  matype {mt:2d} ({name:8s}): k all NaN = {allnan}")
    if allnan:
        dead.append(name)

print("\nProperty C15 requires: stochastics agree with their textbook definition for all parameters / every matype of "
      "the selector, and bounded oscillators stay inside [0, 100]; after the warm-up the value must be a number.")
if np.isnan(got.k).all() or dead:
    print("FAIL: stoch() with an EMA-type slowk_matype/slowd_matype (ema, dema, tema, kama, wilders, smma, mwdx) "
          "returns NaN for every candle because the leading NaNs of raw %K poison the recursive average's seed.")
    sys.exit(1)
print("PASS")
