"""
C02 finding 1: a MARKET order submitted from the fill hook of an order that is filled at the OPEN of
the (remaining) minute candle is filled at that minute's CLOSE - a price of the future - instead of
the current price at the moment it is submitted.

Mechanism: jesse.services.candle.split_candle() returns (candle, candle) when price == open, so the
simulators (_simulate_price_change_effect and _simulate_price_change_effect_multiple_candles) store the
WHOLE remaining candle as "the candle so far" and set position.current_price to its close before they
call order.execute(). The second of two orders resting at the same price (here: two take-profit rungs at
105) is always such an order, because the first fill leaves a remaining candle that opens at 105.

Run:  cd /tmp/wt/gc02 && PYTHONPATH=/tmp/wt/gc02 /venv/bin/python /tmp/wt/gc02.out/finding_1.py
"""
import sys, warnings
warnings.filterwarnings('ignore')
import numpy as np
from jesse.research import backtest
from jesse.strategies import Strategy
from jesse.models import Order

T0 = 1609459200000
FILLS = []
_orig_execute = Order.execute


def _spy(self, silent=False):          # observation only: records every fill
    if self.is_active:
        FILLS.append((self.type, self.side, abs(self.qty), self.price))
    return _orig_execute(self, silent)


Order.execute = _spy


class S(Strategy):
    def should_long(self):
        return self.index == 0

    def should_short(self):
        return False

    def should_cancel_entry(self):
        return False

    def go_long(self):
        self.buy = 3, self.price                      # MARKET entry at 100
        self.take_profit = [(1, 105), (1, 105)]       # two take-profit rungs at the same price

    def on_reduced_position(self, order):
        if self.reduced_count == 2:                   # both rungs are filled: close the rest at market
            FILLS.append(('hook', 'second rung filled at', order.price, 'strategy sees price', self.price,
                          'position.current_price', self.position.current_price))
            self.liquidate()


def candles():
    rows = [
        # ts, open, close, high, low, volume
        [100, 100, 100, 100],        # minute 0: flat at 100 -> the strategy enters at market
        [100, 108, 110, 99],         # minute 1: 100 -> 99 -> 110 -> 108 ; 105 trades on the way up
        [108, 108, 108, 108],
        [108, 108, 108, 108],
        [108, 108, 108, 108],
        [108, 108, 108, 108],
    ]
    return np.array([[T0 + i * 60000, o, c, h, l, 10.0] for i, (o, c, h, l) in enumerate(rows)])


def run(fast, tf):
    del FILLS[:]
    cfg = {'starting_balance': 100_000, 'fee': 0, 'type': 'futures', 'futures_leverage': 2,
           'futures_leverage_mode': 'cross', 'exchange': 'Sandbox', 'warm_up_candles': 0}
    routes = [{'exchange': 'Sandbox', 'strategy': S, 'symbol': 'BTC-USDT', 'timeframe': tf}]
    c = {'Sandbox-BTC-USDT': {'exchange': 'Sandbox', 'symbol': 'BTC-USDT', 'candles': candles()}}
    backtest(cfg, routes, [], c, fast_mode=fast)
    return list(FILLS)


bad = False
for fast in (False, True):
    fills = run(fast, '1m')
    print(f'--- fast_mode={fast}')
    for f in fills:
        print('   ', f)
    market_exits = [f for f in fills if f[0] == 'MARKET' and f[1] == 'sell']
    assert len(market_exits) == 1, fills
    px = market_exits[0][3]
    print(f'    the closing MARKET order was submitted while the price was 105.0 (the fill that triggered the hook) '
          f'and was filled at {px}')
    if px != 105.0:
        bad = True

print()
print('Property C02 requires: "A MARKET order is filled at the current price at the moment it is submitted". '
      'The hook runs when the second 105 rung fills, i.e. at price 105 (minute 1 still has to go to 110 and back to 108).')
if bad:
    print('Observed: the MARKET order is filled at 108.0 = the CLOSE of minute 1 (look-ahead), and self.price / '
          'position.current_price inside the hook already show 108.0.')
    print('FAIL: a MARKET order submitted in the fill hook of an order filled at the open of the remaining candle '
          '(second of two same-priced orders) is filled at the minute\'s future close instead of the current price')
    sys.exit(1)
print('OK')
