"""
C02 finding 1: a MARKET exit (self.liquidate()) is filled at a STALE price instead of the current price
when the route's timeframe windows are not aligned with the unix epoch (3D / 1W / 1M routes of a session
that starts at midnight, or any >1m timeframe of a session that does not start on a multiple of it).

Run:  cd /tmp/wt/kc02 && PYTHONPATH=/tmp/wt/kc02 /venv/bin/python /tmp/wt/kc02.out/finding_1.py
"""
import sys, warnings
warnings.filterwarnings('ignore')
import numpy as np
import jesse.helpers as jh
from jesse.strategies import Strategy
from jesse import research
from jesse.models import Order
from jesse.store import store

EX, SYM, TF = 'Fake Exchange', 'BTC-USDT', '3D'
T0 = 1609459200000            # 2021-01-01T00:00:00Z (a normal midnight start; epoch day 18628, 18628 % 3 == 1)
W = 3 * 1440                  # one 3D window in minutes
EVENTS = []                   # (what, type, side, price, time, last traded price of the 1m series)

_orig_execute = Order.execute
def _spy(self, silent=False):
    if not (self.is_canceled or self.is_executed):
        last_1m_close = float(store.candles.get_current_candle(EX, SYM, '1m')[2])
        EVENTS.append((self.type, self.side, float(self.price), float(self.qty), int(store.app.time), last_1m_close))
    return _orig_execute(self, silent)
Order.execute = _spy


class S(Strategy):
    seen = None
    def should_long(self): return self.index == 0
    def should_cancel_entry(self): return False
    def go_long(self):
        # market entry + a second resting entry point at 97
        self.buy = [(1, self.price), (1, 97.0)]
    def update_position(self):
        # second execution (end of the 2nd 3D window): close everything with a MARKET order
        S.seen = (float(self.price), float(self.position.current_price),
                  float(self.get_candles(EX, SYM, '1m')[-1][2]))
        self.liquidate()


def candles():
    # 2 windows of 3 days. flat at 100; in the 2nd window (day 6 02:00) the price drops to 97 (fills the
    # resting entry), ten minutes later to 90 and stays there until the end.
    closes = np.full(2 * W, 100.0)
    k = W + 3000
    closes[k:] = 97.0
    closes[k + 10:] = 90.0
    rows, prev = [], 100.0
    for i, c in enumerate(closes):
        rows.append([T0 + i * 60_000, prev, c, max(prev, c), min(prev, c), 1.0])
        prev = c
    return np.array(rows)


def run(fast):
    EVENTS.clear()
    S.seen = None
    cfg = {'starting_balance': 100_000, 'fee': 0, 'type': 'futures', 'futures_leverage': 2,
           'futures_leverage_mode': 'cross', 'exchange': EX, 'warm_up_candles': 0}
    routes = [{'exchange': EX, 'strategy': S, 'symbol': SYM, 'timeframe': TF}]
    research.backtest(cfg, routes, [], {jh.key(EX, SYM): {'exchange': EX, 'symbol': SYM, 'candles': candles()}},
                      fast_mode=fast)
    return list(EVENTS), S.seen


bad = False
for fast in (False, True):
    ev, seen = run(fast)
    print(f'--- simulator: {"fast" if fast else "normal"} ---')
    for typ, side, price, qty, t, last in ev:
        print(f'  executed {typ:6s} {side:4s} qty={qty:+.1f} price={price:6.2f} at {jh.timestamp_to_time(t)[:16]}'
              f'   (last traded 1m close at that moment: {last:.2f})')
    print(f'  at the 2nd execution the strategy saw self.price={seen[0]}, position.current_price={seen[1]}, '
          f'last 1m close={seen[2]}')
    exits = [e for e in ev if e[0] == 'MARKET' and e[1] == 'sell']
    assert len(exits) == 1, ev
    typ, side, price, qty, t, last = exits[0]
    print(f'  property C02 requires: a MARKET order is filled at the current price when it is submitted -> {last}')
    print(f'  observed: the MARKET sell of liquidate() was filled at {price} '
          f'({abs(price / last - 1) * 100:.1f}% away; 97 last traded 22 hours earlier)')
    if abs(price - last) > 1e-9:
        bad = True

print()
print('cause: _update_all_routes_a_partial_candle() places the partial 3D candle of the fill on the epoch grid')
print('       (2021-01-06), the simulator builds its 3D windows from the session start (2021-01-04); add_candle()')
print('       then silently drops the complete candle (older timestamp) and get_current_candle() keeps returning')
print('       the partial one, so self.price / self.close is the last FILL price of the window, not the close.')
if bad:
    print('FAIL: a MARKET exit (liquidate) on a 3D route is filled at a stale price (97) instead of the current '
          'price (90) in both simulators')
    sys.exit(1)
print('OK: no violation observed')
