"""
C06 finding 2: open position at session end + a strategy that re-enters from on_close_position().
Strategy._terminate() closes the open position with a market order; the close is reported through
on_close_position(), whose (legal) self.broker market order is executed by the same
store.orders.execute_pending_market_orders() loop.  The session therefore ENDS with an open position whose
cycle never produces a closed trade; its entry fee has been taken from the wallet, so the reported net profit
and the finishing balance disagree.

Run:  cd /tmp/wt/uc06 && PYTHONPATH=/tmp/wt/uc06 /venv/bin/python /tmp/wt/uc06.out/finding_2.py
"""
import sys, warnings
warnings.filterwarnings('ignore')
import numpy as np
import jesse.helpers as jh
from jesse.strategies import Strategy
from jesse.research import backtest
from jesse.store import store
import jesse.modes.backtest_mode as bm

EX, SYM = 'Binance Perpetual Futures', 'BTC-USDT'
OUT = {'events': []}


class StopAndReverse(Strategy):
    """always in the market: whenever the position is closed, open the opposite one at market"""
    last = None

    def should_long(self):
        return self.index == 0

    def go_long(self):
        self.buy = 1, self.price
        self.last = 'long'

    def on_open_position(self, order):
        OUT['events'].append(('open', self.position.qty, int(self.time)))
        d = 3 if self.is_long else -3
        self.stop_loss = abs(self.position.qty), self.position.entry_price - d

    def on_close_position(self, order):
        OUT['events'].append(('close', self.position.qty, int(self.time)))
        if self.last == 'long':
            self.broker.sell_at_market(1); self.last = 'short'
        else:
            self.broker.buy_at_market(1); self.last = 'long'


# snapshot the final state just before the report is built (after _terminate of every route)
_orig = bm._generate_outputs
def _snap(*a, **k):
    from jesse.services import selectors
    OUT['final_position_qty'] = selectors.get_position(EX, SYM).qty
    OUT['wallet'] = selectors.get_exchange(EX).wallet_balance
    OUT['trades'] = [(t.type, t.qty, t.entry_price, t.exit_price, t.pnl) for t in store.completed_trades.trades]
    return _orig(*a, **k)
bm._generate_outputs = _snap

t0 = 1_600_000_000_000 - (1_600_000_000_000 % 86_400_000)
closes = [100, 101, 102, 103, 99, 98, 97, 96, 100, 101, 102, 103]     # long stopped at 98 -> short stopped at 101 -> long ...
candles = np.array([[t0 + i * 60_000, closes[i], closes[i + 1], max(closes[i], closes[i + 1]), min(closes[i], closes[i + 1]), 10]
                    for i in range(len(closes) - 1)], dtype=float)
START, FEE = 10_000, 0.001
cfg = {'starting_balance': START, 'fee': FEE, 'type': 'futures', 'futures_leverage': 2,
       'futures_leverage_mode': 'cross', 'exchange': EX, 'warm_up_candles': 0}
routes = [{'exchange': EX, 'strategy': StopAndReverse, 'symbol': SYM, 'timeframe': '1m'}]
res = backtest(cfg, routes, [], {jh.key(EX, SYM): {'exchange': EX, 'symbol': SYM, 'candles': candles}})
m = res['metrics']

print('hook events (hook, position qty, time):')
for e in OUT['events']:
    print('   ', e)
print('closed trades (type, qty, entry, exit, net pnl):')
for t in OUT['trades']:
    print('   ', t)
opens = sum(1 for e in OUT['events'] if e[0] == 'open')
closes_ = sum(1 for e in OUT['events'] if e[0] == 'close')
net = sum(t[4] for t in OUT['trades'])
print(f"cycles opened: {opens}, cycles closed: {closes_}, closed trades: {len(OUT['trades'])}")
print(f"position size after the session has ended: {OUT['final_position_qty']}   (property: the cycle of an open position at session end is closed and logged)")
print(f"net PnL of all closed trades      : {net:.6f}   (metrics net_profit {m['net_profit']:.6f})")
print(f"change of the wallet balance      : {OUT['wallet'] - START:.6f}   (metrics finishing-starting {m['finishing_balance'] - m['starting_balance']:.6f})")
bad_open = abs(OUT['final_position_qty']) > 0
bad_cycles = opens != len(OUT['trades'])
bad_money = abs(m['net_profit'] - (m['finishing_balance'] - m['starting_balance'])) > 1e-9
if not (bad_open or bad_cycles or bad_money):
    print('OK')
    sys.exit(0)
print('FAIL: the forced close at session end re-enters through on_close_position(): a position stays open after the session, '
      'its cycle has no closed trade, and net profit differs from the wallet change by its entry fee')
sys.exit(1)
