"""
C06 finding 1: after a position FLIP (one oversized non-reduce-only fill), the closed trade of the NEW cycle
does not list the order whose fill opened it: trade.orders lacks its entry order (the order is attached to
the old trade only), although its qty / entry price are booked from that very fill.

Run:  cd /tmp/wt/uc06 && PYTHONPATH=/tmp/wt/uc06 /venv/bin/python /tmp/wt/uc06.out/finding_1.py
"""
import sys, warnings
warnings.filterwarnings('ignore')
import numpy as np
import jesse.helpers as jh
from jesse.strategies import Strategy
from jesse.models import Order
from jesse.research import backtest

EX, SYM = 'Binance Perpetual Futures', 'BTC-USDT'
OUT = {'fills': [], 'trades': None}

# record every fill independently of the trade log
_orig = Order.execute
def _rec(self, silent=False):
    if not (self.is_canceled or self.is_executed):
        OUT['fills'].append((self.id, self.side, self.qty, self.price, self.type))
    return _orig(self, silent)
Order.execute = _rec


class Flip(Strategy):
    def should_long(self):
        return self.index == 0

    def go_long(self):
        self.buy = 1, self.price                 # long 1 at market

    def update_position(self):
        if self.index == 2 and self.is_long:
            self.broker.sell_at_market(3)        # one fill: closes the long of 1 and opens a short of 2
        elif self.index == 5 and self.is_short:
            self.liquidate()                     # close the short of 2

    def terminate(self):
        OUT['trades'] = [
            dict(type=t.type, qty=t.qty, entry=t.entry_price, exit=t.exit_price,
                 order_ids=[o.id for o in t.orders], sell_rows=t.sell_orders[:].tolist(), buy_rows=t.buy_orders[:].tolist())
            for t in self.trades]


n = 10
t0 = 1_600_000_000_000 - (1_600_000_000_000 % 86_400_000)
prices = [100, 101, 102, 103, 104, 105, 106, 107, 108, 109, 110]
candles = np.array([[t0 + i * 60_000, prices[i], prices[i + 1], prices[i + 1], prices[i], 10] for i in range(n)], dtype=float)
cfg = {'starting_balance': 10_000, 'fee': 0, 'type': 'futures', 'futures_leverage': 2,
       'futures_leverage_mode': 'cross', 'exchange': EX, 'warm_up_candles': 0}
routes = [{'exchange': EX, 'strategy': Flip, 'symbol': SYM, 'timeframe': '1m'}]
backtest(cfg, routes, [], {jh.key(EX, SYM): {'exchange': EX, 'symbol': SYM, 'candles': candles}})

print('fills (id, side, qty, price, type):')
for f in OUT['fills']:
    print('   ', f[0][:8], *f[1:])
print('closed trades:')
for t in OUT['trades']:
    print('   ', t['type'], 'qty', t['qty'], 'entry', t['entry'], 'exit', t['exit'], 'orders', [i[:8] for i in t['order_ids']])

assert len(OUT['fills']) == 3 and len(OUT['trades']) == 2, 'scenario did not play out as intended'
entry, flip, exit_ = [f[0] for f in OUT['fills']]
t1, t2 = OUT['trades']
print()
print('property: every cycle produces one closed trade whose ... order list are those of the fills of that cycle')
print(f'  cycle 1 (long 1) fills: {entry[:8]} (buy 1), {flip[:8]} (closing part of sell 3)   -> trade.orders = {[i[:8] for i in t1["order_ids"]]}')
print(f'  cycle 2 (short 2) fills: {flip[:8]} (remaining 2 of sell 3 = its ENTRY), {exit_[:8]} (buy 2) -> trade.orders = {[i[:8] for i in t2["order_ids"]]}')
ok1 = sorted(t1['order_ids']) == sorted([entry, flip])
ok2 = sorted(t2['order_ids']) == sorted([flip, exit_])
print('  trade 2 quantities come from the flip fill (sell rows:', t2['sell_rows'], ') but the order is not in its order list')
if ok1 and ok2:
    print('OK: order lists match the fills')
    sys.exit(0)
print('FAIL: the trade opened by a position flip does not list the flipping order that is its entry fill '
      '(trade.orders has only the exit order; a short trade with no sell order in its order list)')
sys.exit(1)
