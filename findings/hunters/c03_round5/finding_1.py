"""
C03 finding 1: while an order that FLIPS a position is being executed, the account is shown to the strategy
(on_close_position / on_cancel / on_route_close_position hooks) with the flipping order only half applied:
the fee of the whole order is charged, but position size = 0 and available margin = the whole wallet, although
the order has been executed in full.  A non-reduce-only order submitted at that point is margin-checked against
that wrong available margin: it is ACCEPTED although notional/leverage exceeds the available margin of the
reference account that was fed the same executed orders; right after the flip the available margin is hugely
negative without any price move.

run:  cd /tmp/wt/uc03 && PYTHONPATH=/tmp/wt/uc03 /venv/bin/python /tmp/wt/uc03.out/finding_1.py [fast]
"""
import sys, warnings
warnings.filterwarnings('ignore')
import numpy as np
from jesse.strategies import Strategy
from jesse.exceptions import InsufficientMargin
from jesse.research import backtest

EX, SYM = 'Sandbox', 'BTC-USDT'
LEV, BAL, FEE = 1, 10_000, 0.0
obs = {}


class Flip(Strategy):
    def should_long(self): return self.index == 1
    def should_short(self): return False
    def should_cancel_entry(self): return False
    def go_long(self): self.buy = 1, self.price            # long 1 @ 100

    def update_position(self):
        if self.index == 5 and self.is_long:
            obs['avail_before_flip'] = self.available_margin
            self.broker.sell_at_market(90)                     # sell 90 against long 1 -> flip to short 89

    def on_close_position(self, order):
        # the flipping order (sell 90 @ 100) has been EXECUTED; this hook is one "point of the session"
        if 'hook_qty' in obs:
            return                                             # (the close at the end of the session)
        obs['hook_order'] = (order.qty, order.price, order.status)
        obs['hook_qty'] = self.position.qty
        obs['hook_avail'] = self.available_margin
        try:
            self.broker.sell_at(90, 105)                       # resting limit sell, notional 9450, 9450 / 1 needed
            obs['accepted'] = True
        except InsufficientMargin:
            obs['accepted'] = False

    def on_open_position(self, order):
        if self.is_short and 'after_qty' not in obs:
            obs['after_qty'] = self.position.qty
            obs['after_entry'] = self.position.entry_price
            obs['after_avail'] = self.available_margin
            obs['after_wallet'] = self.balance


n = 12
candles = np.array([[1609459200000 + i * 60000, 100, 100, 100, 100, 1] for i in range(n)], dtype=float)
cfg = {'starting_balance': BAL, 'fee': FEE, 'type': 'futures', 'futures_leverage': LEV,
       'futures_leverage_mode': 'cross', 'exchange': EX, 'warm_up_candles': 0}
backtest(cfg, [{'exchange': EX, 'strategy': Flip, 'symbol': SYM, 'timeframe': '1m'}], [],
         {f'{EX}-{SYM}': {'exchange': EX, 'symbol': SYM, 'candles': candles}},
         fast_mode=len(sys.argv) > 1 and sys.argv[1] == 'fast')

# reference average-cost margin account fed the same executed orders (all prices are 100, so no PnL at all):
#   buy 1 @ 100        -> long 1 @ 100
#   sell 90 @ 100      -> closes 1 (PnL 0), opens short 89 @ 100 ; wallet 10000
ref_qty = 1 - 90
ref_avail = BAL - abs(ref_qty) * 100 / LEV                     # 1100
needed = 90 * 105 / LEV                                        # 9450
print('flipping order seen by on_close_position (qty, price, status):', obs['hook_order'])
print(f"inside on_close_position : jesse position qty = {obs['hook_qty']}, available margin = {obs['hook_avail']}")
print(f"reference after that same executed order: position qty = {ref_qty}, available margin = {ref_avail}")
print(f"order submitted there: sell 90 @ 105 (non-reduce-only), notional/leverage = {needed}")
print(f"   property: rejected exactly when {needed} > available margin {ref_avail}  -> must be REJECTED")
print(f"   jesse   : {'ACCEPTED' if obs['accepted'] else 'rejected'}")
print(f"right after the flip (no price move): qty = {obs['after_qty']} @ {obs['after_entry']}, wallet = {obs['after_wallet']}, "
      f"available margin = {obs['after_avail']}")

bad = obs['accepted'] and needed > ref_avail
if bad or obs['hook_qty'] != ref_qty or abs(obs['hook_avail'] - ref_avail) > 1e-9:
    print('FAIL: during a flip the close hooks see position 0 / available margin = whole wallet although the flipping order '
          'is fully executed, so an order needing 9450 of margin is accepted with only 1100 available (margin ends at '
          f"{obs['after_avail']})")
    sys.exit(1)
print('OK')
