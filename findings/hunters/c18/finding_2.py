"""C18 finding 2: delete() does not interpret its index against the logical length:
a negative index (valid on a list) removes the wrong row, and an index >= length
silently removes the last row instead of raising like the list."""
import sys
import numpy as np
from jesse.libs import DynamicNumpyArray


def fresh():
    d = DynamicNumpyArray((10, 2))          # same shape as the order tables in Exchange / ClosedTrade
    rows = [[1.0, 100.0], [2.0, 200.0], [3.0, 300.0], [4.0, 400.0]]
    for r in rows:
        d.append(np.array(r))
    return d, [list(r) for r in rows]


problems = []

# (a) negative index: del l[-2] removes the second to last row
d, model = fresh()
d.delete(-2, axis=0)
del model[-2]
print('delete(-2): array rows =', d[:].tolist())
print('            list  rows =', model)
if d[:].tolist() != model:
    problems.append(f'delete(-2, axis=0) left {d[:].tolist()}, the list model leaves {model}')

# (b) -len .. -1 all valid on the list; only -1 happens to work
bad = []
for i in range(-4, 0):
    d, model = fresh()
    d.delete(i, axis=0)
    del model[i]
    if len(d) != len(model) or d[:].tolist() != model:
        bad.append(i)
print('negative delete indices with a wrong result:', bad)

# (c) out-of-range index: the list raises IndexError and stays unchanged
d, model = fresh()
try:
    del model[4]
    list_raised = False
except IndexError:
    list_raised = True
try:
    d.delete(4, axis=0)
    arr_raised = False
except IndexError:
    arr_raised = True
print(f'delete(4) on 4 rows: list raised={list_raised}, array raised={arr_raised}, array rows now={d[:].tolist()}')
if list_raised and (not arr_raised) and d[:].tolist() != model:
    problems.append(f'delete(4, axis=0) on a 4-row array did not raise and left {d[:].tolist()} (list: IndexError, unchanged {model})')

print()
print('property requires: deletion leaves exactly what the list model leaves (del l[-2] removes the second to last row).')
if problems:
    for p in problems:
        print('observed:', p)
    print('FAIL: DynamicNumpyArray.delete() passes the index straight to np.delete on the padded backing array, so a '
          'negative index removes a padding row and the LAST logical row disappears instead of the addressed one')
    sys.exit(1)
print('PASS')
