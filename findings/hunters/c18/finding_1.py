"""C18 finding 1: an empty bulk append on an empty array with the drop-oldest option
makes the length negative; len() raises and the rows appended afterwards are lost."""
import sys
import numpy as np
from jesse.libs import DynamicNumpyArray

DROP_AT = 4
d = DynamicNumpyArray((3, 2), drop_at=DROP_AT)   # bucket of 3 rows, 2 columns, drop-oldest at 4
model = []                                        # the plain list of rows

# bulk append of zero rows: list.extend([]) is valid and leaves the list empty
d.append_multiple(np.zeros((0, 2)))
model.extend([])

problems = []
print(f'after append_multiple(<0 rows>) on the empty array: index={d.index}, list model length={len(model)}')
try:
    n = len(d)
    print('len(d) =', n)
    if n != len(model):
        problems.append(f'len(d)={n}, list model says {len(model)}')
except Exception as e:
    print(f'len(d) raised {type(e).__name__}: {e}')
    problems.append(f'len(d) raised {type(e).__name__}: {e}')

# keep going with single appends: they must show up like in the list
for k in (1, 2, 3):
    row = [float(k), float(10 * k)]
    d.append(np.array(row))
    model.append(row)
    # (documented drop rule: when the length hits a multiple of drop_at, drop drop_at/2 oldest; not reached here)

logical_len = d.index + 1
print(f'after 3 single appends: logical length (index+1) = {logical_len}, list model length = {len(model)}')
print('list =', model)
try:
    got = d[:].tolist()
    print('d[:] =', got)
    if got != model:
        problems.append(f'after 3 appends the array holds {got} (length {logical_len}) but the list holds {model}')
except Exception as e:
    print(f'd[:] raised {type(e).__name__}: {e}')
    problems.append(f'after 3 appends the logical length is {logical_len} (list: {len(model)}) and d[:] raised {type(e).__name__}')
try:
    last = d[-1].tolist()
    print('d[-1] =', last, ' list[-1] =', model[-1])
    if last != model[-1]:
        problems.append(f'd[-1]={last} but list[-1]={model[-1]}')
except Exception as e:
    print(f'd[-1] raised {type(e).__name__}: {e}   (list[-1] = {model[-1]})')
    problems.append(f'd[-1] raised {type(e).__name__} although list[-1] is valid')

# control: without the drop-oldest option the same history is fine
c = DynamicNumpyArray((3, 2))
c.append_multiple(np.zeros((0, 2)))
for k in (1, 2, 3):
    c.append(np.array([float(k), float(10 * k)]))
print('control without drop_at: len =', len(c), 'rows =', c[:].tolist())

print()
print('property requires: bulk append of zero rows leaves an empty list (length 0), len() does not raise,')
print('and the three rows appended afterwards are rows 0..2 of the array.')
if problems:
    for p in problems:
        print('observed:', p)
    print('FAIL: append_multiple() of zero rows on an empty DynamicNumpyArray with drop_at set runs the drop-oldest '
          'branch (0 % drop_at == 0), making the length negative so len() raises and later appends are lost')
    sys.exit(1)
print('PASS')
