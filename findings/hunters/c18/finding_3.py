"""C18 finding 3: delete(i) with the default axis (None) on a table with columns flattens the
backing array: the rows are gone, indexing returns scalars and later appends raise."""
import sys
import numpy as np
from jesse.libs import DynamicNumpyArray

problems = []

# order-table shape used by Exchange / ClosedTrade
d = DynamicNumpyArray((10, 2))
model = [[1.0, 100.0], [2.0, 200.0], [3.0, 300.0]]
for r in model:
    d.append(np.array(r))
d.delete(0)            # the natural spelling of "del l[0]"; signature: delete(self, index, axis=None)
del model[0]
print('after delete(0): backing array ndim =', d.array.ndim, ' shape =', d.array.shape)
print('d[0] =', d[0], '  list[0] =', model[0])
print('d[:] =', d[:].tolist(), '  list =', model)
if d[:].tolist() != model:
    problems.append(f'delete(0) on a (10,2) table left {d[:].tolist()} instead of {model}')

# subsequent operations work on scalars, not rows: appending a row after it fails or corrupts
try:
    d.append(np.array([9.0, 900.0]))
    print('append of a row after delete(0): no exception, d[:] =', d[:].tolist())
    if d[:].tolist() != model + [[9.0, 900.0]]:
        problems.append('append of a row after delete(0) does not yield the list contents')
except Exception as ex:
    print(f'append of a row after delete(0) raised {type(ex).__name__}: {ex}')
    problems.append(f'append of a row after delete(0) raised {type(ex).__name__}')

# control: with axis=0 it is fine
c = DynamicNumpyArray((10, 2))
for r in ([1.0, 100.0], [2.0, 200.0], [3.0, 300.0]):
    c.append(np.array(r))
c.delete(0, axis=0)
print('control delete(0, axis=0): rows =', c[:].tolist())

print()
print('property requires: deletion removes exactly one row and leaves the other rows intact; valid operations do not raise.')
if problems:
    for p in problems:
        print('observed:', p)
    print('FAIL: DynamicNumpyArray.delete(index) with its default axis=None flattens the 2-D backing array '
          '(np.delete semantics), destroying the row structure (later row appends raise)')
    sys.exit(1)
print('PASS')
