"""
C17 finding 2: with a NEGATIVE fee rate (a maker rebate - jesse accepts it as the exchange's
`fee` without complaint) size_to_qty and risk_to_qty INFLATE the quantity instead of shrinking it.

size_to_qty multiplies the size by (1 - 3 * fee_rate); for fee_rate < 0 that factor is > 1, so the
quantity costs more than the capital (by 3*|fee| = 0.06% for a 0.02% rebate, far more than a
rounding error), the order is rejected by a fresh account holding the capital, and risk_to_qty
(which applies the factor twice) risks more than the requested percentage.

Run:  cd /tmp/wt/mc17 && PYTHONPATH=/tmp/wt/mc17 /venv/bin/python /tmp/wt/mc17.out/finding_2.py
"""
import sys
import warnings
warnings.filterwarnings('ignore')
from fractions import Fraction as F

import jesse.helpers as jh
import jesse.exceptions as ex
from jesse import research, utils
from jesse.factories import candles_from_close_prices
from jesse.strategies import Strategy

CAPITAL, PRICE, FEE, PRECISION = 10_000, 100.0, -0.0002, 3
problems = []

# --- pure helpers -------------------------------------------------------------------------------
qty = utils.size_to_qty(CAPITAL, PRICE, precision=PRECISION, fee_rate=FEE)
exact = F(CAPITAL) / F(PRICE)
cost = F(qty) * F(PRICE)                       # what the exchange model reserves for the order
cost_with_fee = cost * (1 + F(FEE))            # rebate credited: still above the capital
print(f'size_to_qty({CAPITAL}, {PRICE}, precision={PRECISION}, fee_rate={FEE}) = {qty}')
print(f'  capital / price = {float(exact)};  cost = {float(cost)};  cost incl. (negative) fee = {float(cost_with_fee):.4f}')
if cost_with_fee > CAPITAL:
    problems.append('size_to_qty quantity costs more than the capital')

ENTRY, STOP, RISK = 100.0, 90.0, 1
rq = utils.risk_to_qty(CAPITAL, RISK, ENTRY, STOP, precision=PRECISION, fee_rate=FEE)
risked = F(rq) * abs(F(ENTRY) - F(STOP))
allowed = F(CAPITAL) * RISK / 100
print(f'risk_to_qty({CAPITAL}, {RISK}, {ENTRY}, {STOP}, precision={PRECISION}, fee_rate={FEE}) = {rq}')
print(f'  risked = qty * |entry - stop| = {float(risked):.4f};  requested {RISK}% of capital = {float(allowed)}')
if risked > allowed:
    problems.append('risk_to_qty risks more than the requested percentage')


# --- end to end: is the order accepted by a fresh account holding the capital? -------------------
def attempt(ex_type: str, fast_mode: bool) -> str:
    class Sized(Strategy):
        def should_long(self): return self.index == 0
        def should_cancel_entry(self): return False

        def go_long(self):
            self.buy = utils.size_to_qty(self.balance, self.price, precision=PRECISION, fee_rate=self.fee_rate), self.price

    name, symbol = 'Fake Exchange', 'FAKE-USDT'
    config = {'starting_balance': CAPITAL, 'fee': FEE, 'type': ex_type, 'futures_leverage': 1,
              'futures_leverage_mode': 'cross', 'exchange': name, 'warm_up_candles': 0}
    routes = [{'exchange': name, 'strategy': Sized, 'symbol': symbol, 'timeframe': '1m'}]
    candles = {jh.key(name, symbol): {'exchange': name, 'symbol': symbol,
                                      'candles': candles_from_close_prices([PRICE] * 6)}}
    try:
        research.backtest(config, routes, [], candles, fast_mode=fast_mode)
        return 'accepted'
    except (ex.InsufficientBalance, ex.InsufficientMargin) as e:
        return f'REJECTED ({type(e).__name__}: {str(e)[:100]}...)'


for ex_type in ('spot', 'futures'):
    for fast in (False, True):
        outcome = attempt(ex_type, fast)
        print(f'{ex_type:7s} fee={FEE} fast_mode={fast!s:5s}: market order for size_to_qty(balance, price, fee_rate) -> {outcome}')
        if outcome != 'accepted':
            problems.append(f'{ex_type} order rejected')

print()
print('Property C17 (quantified over every fee rate) requires: the quantity never costs more than the capital')
print('including fees, the order is accepted by a fresh account holding the capital, and risk_to_qty never')
print('risks more than the requested percentage of capital.')
print('Observed:', '; '.join(problems) if problems else 'nothing wrong')
if problems:
    print('FAIL: for a negative fee rate (maker rebate) size_to_qty / risk_to_qty scale the size UP by (1 - 3*fee) '
          'so the quantity overspends the capital, is rejected by a fresh account, and over-risks')
    sys.exit(1)
print('OK')
