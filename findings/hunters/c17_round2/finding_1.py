"""
C17 finding 1: a quantity sized with size_to_qty for price P is REJECTED by a fresh account
holding exactly that capital when the order is submitted "at price P" and P lies within
0.015% below the current market price.

Strategy._submit_buy_orders / _submit_sell_orders use jh.is_price_near(o[1], self.price)
(threshold 0.015%) to decide that the order is a MARKET order, and Broker.buy_at_market /
sell_at_market then price the order at position.current_price instead of the requested
price.  qty * current_price is up to 0.015% larger than qty * P, so the exchange model
raises InsufficientBalance (spot) / InsufficientMargin (futures) unless 3 * fee_rate
happens to be >= 0.015%.

Run:  cd /tmp/wt/mc17 && PYTHONPATH=/tmp/wt/mc17 /venv/bin/python /tmp/wt/mc17.out/finding_1.py
"""
import sys
import warnings
warnings.filterwarnings('ignore')
from fractions import Fraction as F

import jesse.helpers as jh
import jesse.exceptions as ex
from jesse import research, utils
from jesse.factories import candles_from_close_prices
from jesse.strategies import Strategy

CAPITAL = 10_000
CURRENT = 100.0          # close of every candle -> the market price
PRECISION = 3


def attempt(ex_type: str, fee: float, requested_price: float, side: str, fast_mode: bool):
    seen = {}

    class Sized(Strategy):
        def should_long(self): return side == 'long' and self.index == 0
        def should_short(self): return side == 'short' and self.index == 0
        def should_cancel_entry(self): return False

        def _order(self):
            qty = utils.size_to_qty(self.balance, requested_price, precision=PRECISION, fee_rate=self.fee_rate)
            seen.update(qty=qty, balance=self.balance, market=self.price)
            return qty, requested_price

        def go_long(self): self.buy = self._order()
        def go_short(self): self.sell = self._order()

    name, symbol = 'Fake Exchange', 'FAKE-USDT'
    config = {'starting_balance': CAPITAL, 'fee': fee, 'type': ex_type, 'futures_leverage': 1,
              'futures_leverage_mode': 'cross', 'exchange': name, 'warm_up_candles': 0}
    routes = [{'exchange': name, 'strategy': Sized, 'symbol': symbol, 'timeframe': '1m'}]
    candles = {jh.key(name, symbol): {'exchange': name, 'symbol': symbol,
                                      'candles': candles_from_close_prices([CURRENT] * 6)}}
    try:
        research.backtest(config, routes, [], candles, fast_mode=fast_mode)
        outcome = 'accepted'
    except (ex.InsufficientBalance, ex.InsufficientMargin) as e:
        outcome = f'REJECTED ({type(e).__name__}: {str(e)[:95]}...)'
    return outcome, seen


cases = [
    # type,     fee,     requested price, side
    ('spot',    0,       99.99,  'long'),    # 0.01% below the market
    ('futures', 0,       99.99,  'long'),
    ('futures', 0,       99.99,  'short'),
    ('spot',    0.00004, 99.986, 'long'),    # fee rate given to size_to_qty, still rejected
    ('spot',    0,       99.98,  'long'),    # control: 0.02% below -> ordinary LIMIT order
    ('spot',    0,       100.0,  'long'),    # control: exactly the market price
]

violations = 0
for ex_type, fee, price, side in cases:
    for fast in (False, True):
        outcome, seen = attempt(ex_type, fee, price, side, fast)
        qty = seen['qty']
        cost = F(qty) * F(price) * (1 + F(fee))
        within = cost <= F(seen['balance'])
        print(f'{ex_type:7s} fee={fee:<7} side={side:5s} fast_mode={fast!s:5s} market={seen["market"]} '
              f'requested price={price} qty={qty}')
        print(f'        cost at the requested price incl. fee = {float(cost):.6f} '
              f'(<= capital {seen["balance"]}: {within})  ->  {outcome}')
        if within and outcome != 'accepted':
            violations += 1

print()
print('Property C17 requires: a quantity from size_to_qty(capital, price, fee_rate) never costs more than')
print('the capital, "so an order for it at that price is accepted by a fresh account holding the capital".')
print(f'Observed: {violations} orders whose cost at the requested price is within the capital were rejected,')
print('because jesse silently re-prices an order within 0.015% of the market as a MARKET order at the')
print('(higher) current price.')
if violations:
    print('FAIL: an order for a size_to_qty quantity at a price within 0.015% below the market is re-priced '
          'to the market price and rejected by a fresh account holding exactly that capital')
    sys.exit(1)
print('OK')
