"""
C17 finding 2: size_to_qty / jh.floor_with_precision ROUND UP: the returned qty is larger than the exact
quotient capital/price (one full precision step above the correct floor), so qty*price > capital.

floor_with_precision(num, p) = math.floor(num * 10**p) / 10**p is evaluated in binary floating point:
the float quotient capital/price and the product num*10**p can both round UP to the next integer
multiple of the step, and math.floor then keeps the rounded-up value.

All checks below are done in exact rational arithmetic (inputs read as the decimal numbers the user typed,
the returned float read at its exact binary value), so no float noise of the checker is involved.
The first case is additionally rejected by the spot exchange model's own acceptance rule.

Run:  cd /tmp/wt/hc17 && PYTHONPATH=/tmp/wt/hc17 /venv/bin/python /tmp/wt/hc17.out/finding_2.py
"""
import sys
import math
import random
import warnings
warnings.filterwarnings('ignore')
from decimal import Decimal
from fractions import Fraction

from jesse import utils
import jesse.helpers as jh


def dec(x) -> Fraction:
    """the decimal number a user means when writing the literal x"""
    return Fraction(Decimal(repr(x)))


def check(capital, price, precision):
    q = utils.size_to_qty(capital, price, precision=precision, fee_rate=0)
    exact = dec(capital) / dec(price)                                   # exact quotient
    step = Fraction(1, 10 ** precision)
    correct = math.floor(exact / step) * step                           # correct floor to the step
    q_exact = Fraction(q)                                               # exact binary value of the result
    over_quotient = q_exact > exact
    cost_over = q_exact * dec(price) > dec(capital)
    rejected = utils.subtract_floats(capital, q * price) < 0            # SpotExchange.on_order_submission rule
    print(f'size_to_qty({capital}, {price}, precision={precision}) = {q!r}')
    shown = Decimal(exact.numerator) / Decimal(exact.denominator)       # 28 significant digits
    print(f'    exact quotient        = {str(shown)[:24]}... (correct floor = {float(correct)!r})')
    print(f'    returned > quotient   : {over_quotient}   (by {float(q_exact - exact):.3e}; '
          f'{float((q_exact - correct) / step):.2f} steps above the correct floor)')
    print(f'    qty*price > capital   : {cost_over}   (exact overspend {float(q_exact * dec(price) - dec(capital)):.3e})')
    print(f'    spot exchange rejects : {rejected}   (float qty*price = {q * price!r})')
    return over_quotient and cost_over


print('Property: the qty "never costs more than that capital", "never ... round up", and is at most one '
      'precision step BELOW the exact quotient (never above it).\n')

bad = 0
for case in [(25000, 0.00283, 8), (10000, 0.0353, 8), (2000, 0.00179, 8), (627503.28, 0.401, 8)]:
    if check(*case):
        bad += 1
    print()

# the helper itself, on a plain float: floor_with_precision returns MORE than its argument
x = 939.6999999999999
fx = jh.floor_with_precision(x, 1)
print(f'jh.floor_with_precision({x!r}, 1) = {fx!r}   > argument: {fx > x}')
if fx > x:
    bad += 1

# frequency over random in-scope inputs whose qty is still exactly resolvable by a double (qty*10^p < 2^52)
random.seed(171)
n = up = 0
for _ in range(200000):
    p = random.randint(0, 8)
    cap = round(10 ** random.uniform(0, 6), random.randint(0, 4))
    price = round(10 ** random.uniform(-6, 6), random.randint(0, 8))
    if price < 1e-6 or cap <= 0:
        continue
    q = utils.size_to_qty(cap, price, precision=p, fee_rate=0)
    if q * 10 ** p >= 2 ** 52:
        continue
    n += 1
    if Fraction(q) > dec(cap) / dec(price):
        up += 1
print(f'\nrandom scan: {up} of {n} zero-fee inputs return a qty above the exact quotient capital/price')

print('\nrequired: qty <= capital/price for every input (floor, never round up).')
if bad:
    print('FAIL: size_to_qty(25000, 0.00283, precision=8) returns 8833922.2614841 although 25000/0.00283 = '
          '8833922.261484098..., i.e. floor_with_precision rounded up a full step and qty*price exceeds the capital')
    sys.exit(1)
print('no violation observed')
