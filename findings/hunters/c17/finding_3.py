"""
C17 finding 3 (low severity, 1-ulp effect): jh.round_qty_for_live_mode rounds UP quantities that lie just
below a multiple of the step, although the result would not be zero.

round_decimals_down(number, decimals) = np.floor(number * 10**decimals) / 10**decimals: the float product
number * 10**decimals rounds up to the next integer, np.floor keeps it, and the result is LARGER than the input.
Such inputs are ordinary results of float arithmetic on quantities, e.g. 1.2 - 0.3 = 0.8999999999999999
(remaining qty after a partial exit) or 4.6 * 0.2 = 0.9199999999999999 (20% of a position).

Run:  cd /tmp/wt/hc17 && PYTHONPATH=/tmp/wt/hc17 /venv/bin/python /tmp/wt/hc17.out/finding_3.py
"""
import sys
import random
import warnings
warnings.filterwarnings('ignore')
from fractions import Fraction

import numpy as np
import jesse.helpers as jh

print('Property: "quantity rounding for live trading never rounds up (except to the minimum unit when the '
      'result would be zero)"\n')

bad = 0
cases = [
    ('1.2 - 0.3', 1.2 - 0.3, 1),
    ('1.9 - 0.1', 1.9 - 0.1, 1),
    ('4.6 * 0.2', 4.6 * 0.2, 2),
    ('9.2 * 0.75', 9.2 * 0.75, 2),
    ('literal', 63208.369999999995, 2),
    ('literal', 117.41910019999999, 7),
]
for label, x, precision in cases:
    r = jh.round_qty_for_live_mode(x, precision)
    step = 1 / 10 ** precision
    zero_exception = x < step          # the documented exception: result would otherwise be zero
    up = Fraction(r) > Fraction(x)     # exact comparison of the two doubles
    print(f'round_qty_for_live_mode({x!r:>22} [{label}], {precision}) = {r!r:<14} rounded up: {up}   '
          f'(min-unit exception applies: {zero_exception})')
    if up and not zero_exception:
        bad += 1

# array form, as used by Strategy._get_formatted_order in live mode
arr = np.array([1.2 - 0.3, 4.6 * 0.2])
out = jh.round_qty_for_live_mode(arr.copy(), 2)
print(f'\narray form: {arr.tolist()} -> {out.tolist()}   any rounded up: {bool((out > arr).any())}')

# frequency: values one ulp below a multiple of the step (what a-b / a*b of decimal quantities produce)
random.seed(173)
n = up = 0
for _ in range(100000):
    p = random.randint(0, 8)
    k = random.randint(2, 10 ** random.randint(1, 9))
    x = float(np.nextafter(k / 10 ** p, 0))
    n += 1
    if jh.round_qty_for_live_mode(x, p) > x:
        up += 1
print(f'random scan: {up} of {n} quantities lying one ulp below a step multiple are rounded UP to it')

print('\nrequired: result <= input whenever the floored result is not zero.')
if bad:
    print('FAIL: jh.round_qty_for_live_mode(0.8999999999999999, 1) returns 0.9 (and (0.9199999999999999, 2) '
          'returns 0.92): the live-mode qty rounding rounds up a non-zero quantity')
    sys.exit(1)
print('no violation observed')
