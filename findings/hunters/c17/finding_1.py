"""
C17 finding 1: the quantity returned by size_to_qty(capital, price) is REJECTED by a fresh
account that holds exactly that capital (spot: InsufficientBalance, futures: InsufficientMargin),
in both simulators.

size_to_qty(2500.5, 75.0, precision=2) -> 33.34      (33.34 * 75 == 2500.5 exactly in decimal)
size_to_qty(2500.5, 18.75)             -> 133.36     (default precision=3; 133.36 * 18.75 == 2500.5)
but the exchange model computes the cost as the float product qty*price = 2500.5000000000005
and compares it with the balance 2500.5 -> rejected.

Run:  cd /tmp/wt/hc17 && PYTHONPATH=/tmp/wt/hc17 /venv/bin/python /tmp/wt/hc17.out/finding_1.py
"""
import sys
import random
import warnings
warnings.filterwarnings('ignore')

import jesse.helpers as jh
from jesse import research, utils
from jesse.factories import candles_from_close_prices
from jesse.strategies import Strategy


def run(kind: str, fast: bool, capital: float, price: float, precision):
    """all-in market buy sized with size_to_qty on a fresh account; returns (outcome, details)"""
    seen = {}

    class AllIn(Strategy):
        def should_long(self):
            return self.index == 0

        def should_cancel_entry(self):
            return False

        def go_long(self):
            kw = {} if precision is None else {'precision': precision}
            qty = utils.size_to_qty(self.balance, self.price, fee_rate=self.fee_rate, **kw)
            seen.update(balance=self.balance, price=self.price, qty=qty)
            self.buy = qty, self.price

    ex, sym = 'Fake Exchange', 'FAKE-USDT'
    config = {'starting_balance': capital, 'fee': 0, 'type': kind, 'futures_leverage': 1,
              'futures_leverage_mode': 'cross', 'exchange': ex, 'warm_up_candles': 0}
    routes = [{'exchange': ex, 'strategy': AllIn, 'symbol': sym, 'timeframe': '1m'}]
    candles = {jh.key(ex, sym): {'exchange': ex, 'symbol': sym,
                                 'candles': candles_from_close_prices([price] * 12)}}
    try:
        r = research.backtest(config, routes, [], candles, fast_mode=fast)
        return 'ACCEPTED', seen, f"trades={r['metrics'].get('total')}"
    except Exception as e:
        return type(e).__name__, seen, str(e)[:120]


failures = 0
print('Property: a qty from size_to_qty(capital, price, fee) "never costs more than that capital '
      'including fees - so an order for it at that price is accepted by a fresh account holding the capital"\n')

for capital, price, precision in [(2500.5, 75.0, 2), (2500.5, 18.75, None), (2500.5, 76.0, 2)]:
    for kind in ('spot', 'futures'):
        for fast in (False, True):
            outcome, seen, info = run(kind, fast, capital, price, precision)
            print(f'capital={capital} price={price} precision={precision or "default(3)"} '
                  f'{kind:7s} fast_mode={fast!s:5s} qty={seen.get("qty")} -> {outcome}  {info}')
            if outcome != 'ACCEPTED':
                failures += 1

# how common is it?  random (capital, price, precision) with fee_rate=0, exchange acceptance rule
# of SpotExchange.on_order_submission:  subtract_floats(balance, qty*price) < 0  -> rejected
random.seed(17)
n = rej = 0
for _ in range(100000):
    p = random.randint(0, 8)
    cap = round(10 ** random.uniform(0, 6), random.randint(0, 4))
    price = round(10 ** random.uniform(-6, 6), random.randint(0, 8))
    if price < 1e-6 or cap <= 0:
        continue
    q = utils.size_to_qty(cap, price, precision=p, fee_rate=0)
    n += 1
    if utils.subtract_floats(cap, q * price) < 0:
        rej += 1
print(f'\nrandom scan: {rej} of {n} zero-fee (capital, price, precision) triples give a qty the spot '
      f'exchange model rejects for an account holding exactly that capital')

print('\nrequired: every such order is accepted (the control row with price 76.0 is).')
if failures:
    print(f'FAIL: size_to_qty(2500.5, 75.0, precision=2)=33.34 (and size_to_qty(2500.5, 18.75)=133.36) is rejected '
          f'with InsufficientBalance/InsufficientMargin by a fresh account holding 2500.5, in both simulators')
    sys.exit(1)
print('no violation observed')
