"""
C05 - an order submitted while Strategy._execute_cancel() is running becomes an invisible, immortal ACTIVE order.

Strategy._execute_cancel() does, in this order:
    broker.cancel_all_orders(); self._reset(); self._broadcast('route-canceled'); self.on_cancel();
    store.orders.storage[key].clear()            # (backtest mode)
An order submitted from the on_cancel() hook (here: self.broker.buy_at, the same broker the framework uses) is
added to storage + active_storage, then storage is cleared underneath it.  The very same _check() then sees
"position closed and entry_orders == []" and calls _reset() -> store.orders.reset_trade_orders(), which also
drops it from active_storage WITHOUT cancelling it.  From then on the order is still ACTIVE (not final) but is
not reported by get_active_orders()/get_orders()/count_active_orders(), the simulator can never execute it,
cancel-all and the end-of-session clean-up can never cancel it, and on spot its reserved quote balance is never
released.

NOTE (scope): the trigger needs a strategy that submits through self.broker inside on_cancel(); the
declarative API (self.buy / self.stop_loss ...) cannot submit at that moment.

Run:  cd <repo> && PYTHONPATH=<repo> python finding_2.py
"""
import sys
import warnings
warnings.filterwarnings('ignore')
import numpy as np

import jesse.helpers as jh
import jesse.services.selectors as selectors
from jesse import research
from jesse.models import Order
from jesse.store import store
from jesse.strategies import Strategy

created = []
_orig_init = Order.__init__


def _recording_init(self, *a, **k):          # test-side bookkeeping only: remember every submitted order
    _orig_init(self, *a, **k)
    created.append(self)


Order.__init__ = _recording_init
observations = []
final = {}


class ReEnterOnCancel(Strategy):
    did = False

    def should_long(self): return self.index == 1
    def go_long(self): self.buy = 1, self.price - 20          # LIMIT buy 1 @ 80, never reached
    def should_cancel_entry(self): return True                # -> cancelled on the next candle

    def on_cancel(self):
        if not ReEnterOnCancel.did:
            ReEnterOnCancel.did = True
            self.broker.buy_at(1, self.price - 30)            # LIMIT buy 1 @ 70, reserves 70 USDT

    def _observe(self, where):
        non_final = [o for o in created if o.status == 'ACTIVE']
        reported = [o for o in store.orders.get_active_orders(self.exchange, self.symbol) if o.is_active]
        usdt = selectors.get_exchange(self.exchange).assets['USDT']
        observations.append((where, [o.price for o in non_final], [o.price for o in reported], usdt))
        return non_final, reported, usdt

    def before(self): self._observe('candle %d' % self.index)

    def terminate(self):                                      # after the framework's end-of-session clean-up
        non_final, reported, usdt = self._observe('terminate')
        final.update(non_final=list(non_final), reported=list(reported), usdt=usdt, pos=self.position.qty,
                     count=store.orders.count_active_orders(self.exchange, self.symbol))


EX, SYM = 'Binance Spot', 'BTC-USDT'
candles = np.array([[1609459200000 + i * 60000, 100, 100, 101, 99, 1] for i in range(8)], dtype=float)
research.backtest(
    {'starting_balance': 10000, 'fee': 0, 'type': 'spot', 'futures_leverage': 1, 'futures_leverage_mode': 'cross',
     'exchange': EX, 'warm_up_candles': 0},
    [{'exchange': EX, 'strategy': ReEnterOnCancel, 'symbol': SYM, 'timeframe': '1m'}], [],
    {jh.key(EX, SYM): {'exchange': EX, 'symbol': SYM, 'candles': candles}})
Order.__init__ = _orig_init

print('%-10s %-28s %-22s %s' % ('when', 'submitted & not final (px)', 'reported active (px)', 'USDT'))
for w, nf, rep, usdt in observations:
    print('%-10s %-28s %-22s %s' % (w, nf, rep, usdt))
print('all orders of the session:', [(o.type, o.side, o.qty, o.price, o.status) for o in created])
print()
print('PROPERTY C05 requires: the orders reported as active for a symbol are exactly the submitted orders that are')
print('not yet final (so that each of them can still make its single transition to executed or cancelled).')
zombies = [o for o in final['non_final'] if o not in final['reported']]
print('OBSERVED at the end of the session: position qty = %s, count_active_orders = %s, reported active = %s,'
      % (final['pos'], final['count'], [o.price for o in final['reported']]))
print('  but order(s) %s are still ACTIVE (never executed, never cancelled, invisible to the simulator and to'
      % [(o.side, o.qty, o.price, o.status) for o in zombies])
print('  cancel-all), and the wallet holds %s USDT instead of 10000 with no position and no trade.' % final['usdt'])
if zombies:
    print('FAIL: an order submitted during Strategy._execute_cancel() (on_cancel hook) is dropped from the active-order '
          'lists by _reset() without being cancelled: it stays ACTIVE forever and its reserved balance is never released.')
    sys.exit(1)
print('OK: no violation observed')
