"""
C05 - Order.execute_partially() has no "already final" guard.

Order.execute() and Order.cancel() both start with
    if self.is_canceled or self.is_executed: return
but Order.execute_partially() (the partial-fill execution entry point, same class) does not.
Calling it on an order that is already EXECUTED or CANCELED
  * moves the order out of its terminal state (status becomes 'PARTIALLY FILLED'),
  * applies the order to the position a second time and adds a row to the trade record,
  * and, because the order is no longer final, a following cancel()/execute() goes through
    again: a second terminal transition that refunds / credits balances a second time.

Run:  cd <repo> && PYTHONPATH=<repo> python finding_1.py
"""
import sys
import warnings
warnings.filterwarnings('ignore')

import numpy as np
import jesse.helpers as jh
import jesse.services.selectors as selectors
from jesse.config import config, reset_config
from jesse.routes import router
from jesse.services.broker import Broker
from jesse.store import store
from jesse.strategies import Strategy

EX, SYM = 'Sandbox', 'BTC-USDT'


class Idle(Strategy):
    def should_long(self): return False
    def go_long(self): pass
    def should_cancel_entry(self): return False


def set_up(kind):
    reset_config()
    config['env']['exchanges'][EX]['fee'] = 0
    config['env']['exchanges'][EX]['balance'] = 10_000
    config['env']['exchanges'][EX]['type'] = kind
    if kind == 'futures':
        config['env']['exchanges'][EX]['futures_leverage'] = 1
        config['env']['exchanges'][EX]['futures_leverage_mode'] = 'cross'
    config['app']['trading_mode'] = 'backtest'
    config['app']['considering_exchanges'] = [EX]
    router.initiate([{'exchange': EX, 'symbol': SYM, 'timeframe': '1m', 'strategy': Idle}], [])
    store.reset(True)
    from jesse.modes.backtest_mode import _prepare_routes
    _prepare_routes()                    # instantiates the strategy and attaches it to the position, as a backtest does
    p = selectors.get_position(EX, SYM)
    p.current_price = 50
    store.app.time = 1_600_000_060_000
    store.candles.init_storage(5000)
    store.candles.add_candle(np.array([1_600_000_000_000, 50, 50, 50, 50, 1.0]), EX, SYM, '1m',
                             with_execution=False, with_generation=False)
    return p, selectors.get_exchange(EX), Broker(p, EX, SYM, '1m')


def state(o, p, e):
    t = store.completed_trades.tempt_trades.get(jh.key(EX, SYM))
    return {'status': o.status, 'USDT': e.assets['USDT'], 'BTC': e.assets['BTC'], 'position_qty': p.qty,
            'trade_buy_rows': 0 if t is None else len(t.buy_orders),
            'executed_at': o.executed_at, 'canceled_at': o.canceled_at}


failures = []

# ---- history 1 (spot): submit, execute, then a (late / duplicate) partial-fill call, then cancel
p, e, b = set_up('spot')
o = b.buy_at(1, 40)                      # LIMIT buy 1 @ 40, reserves 40 USDT
o.execute()
s_final = state(o, p, e)
print('spot  after execute()            :', s_final)
o.execute()                              # documented idempotence: fine
assert state(o, p, e) == s_final
o.execute_partially()                    # <- call on an already EXECUTED order
s1 = state(o, p, e)
print('spot  after execute_partially()  :', s1)
o.cancel()
s2 = state(o, p, e)
print('spot  after cancel()             :', s2)
if s1 != s_final:
    failures.append('spot: execute_partially() on an EXECUTED order changed status %r -> %r, position %s -> %s, trade rows %s -> %s'
                    % (s_final['status'], s1['status'], s_final['position_qty'], s1['position_qty'],
                       s_final['trade_buy_rows'], s1['trade_buy_rows']))
if s2['status'] == 'CANCELED':
    failures.append('spot: the EXECUTED order was afterwards CANCELED as well (second terminal transition), '
                    'USDT balance %s -> %s although 1 BTC was bought and kept' % (s_final['USDT'], s2['USDT']))

# ---- history 2 (futures): submit, cancel, then partial-fill call, then execute
p, e, b = set_up('futures')
o = b.buy_at(1, 40)
o.cancel()
c_final = state(o, p, e)
print('fut   after cancel()             :', c_final)
o.execute_partially()                    # <- call on an already CANCELED order
c1 = state(o, p, e)
print('fut   after execute_partially()  :', c1)
o.execute()
c2 = state(o, p, e)
print('fut   after execute()            :', c2)
if c1 != c_final:
    failures.append('futures: execute_partially() on a CANCELED order changed status %r -> %r and opened a position of %s'
                    % (c_final['status'], c1['status'], c1['position_qty']))
if c2['status'] == 'EXECUTED':
    failures.append('futures: the CANCELED order was afterwards EXECUTED (position %s, both canceled_at and executed_at set)'
                    % c2['position_qty'])

print()
print('PROPERTY C05 requires: an order makes at most one transition active -> executed|cancelled and never changes')
print('afterwards; executing/cancelling a final order has no effect on balances, positions, margin or trade records.')
print('OBSERVED:')
for f in failures:
    print('  -', f)
if failures:
    print('FAIL: Order.execute_partially() lacks the finality guard of execute()/cancel(): it re-opens EXECUTED/CANCELED '
          'orders, re-applies them to the position/trade record and lets a second terminal transition move balances.')
    sys.exit(1)
print('OK: no violation observed')
