"""
C05 - an order submitted through self.broker inside should_long() / go_long() / a filter is dropped from
the order store when a filter rejects the entry: it stays ACTIVE (never executed, never cancelled), keeps its
reservation, but is no longer reported as active, can never fill and is never cancelled (not even at the end).

Run:  cd /tmp/wt/uc05 && PYTHONPATH=/tmp/wt/uc05 /venv/bin/python /tmp/wt/uc05.out/finding_1.py
"""
import sys
import warnings
warnings.filterwarnings('ignore')
import numpy as np
import jesse.helpers as jh
from jesse import research
from jesse.strategies import Strategy
from jesse.store import store
from jesse.services import selectors

EX, SYM = 'Fake Exchange', 'BTC-USDT'
OBS = {}


class S(Strategy):
    """wants to go long on the first candle; next to the regular entry it places a breakout order with the broker.
    The filter rejects the entry."""
    extra = None

    def should_long(self):
        return self.index == 0

    def go_long(self):
        self.buy = 1, self.price
        if S.extra is None:
            # a resting buy STOP at 103 (price is 100): submitted, accepted, ACTIVE
            S.extra = self.broker.start_profit_at('buy', 1, 103)
            OBS['after_submit'] = store.orders.count_active_orders(self.exchange, self.symbol)

    def filters(self):
        return [self.never]

    def never(self):
        return False

    def should_cancel_entry(self):
        return True

    def before(self):
        if self.index == 1:
            OBS['next_candle'] = dict(
                status=S.extra.status,
                reported_active=store.orders.count_active_orders(self.exchange, self.symbol),
                in_active_list=any(o is S.extra for o in store.orders.get_active_orders(self.exchange, self.symbol)),
                in_orders=any(o is S.extra for o in self.orders),
                balance=self.balance, available_margin=self.available_margin,
            )

    def terminate(self):
        OBS['end'] = dict(
            status=S.extra.status, executed_at=S.extra.executed_at, canceled_at=S.extra.canceled_at,
            reported_active=store.orders.count_active_orders(self.exchange, self.symbol),
            position_qty=self.position.qty,
            balance=self.balance, available_margin=self.available_margin,
            high_seen=float(self.candles[:, 3].max()),
        )


def candles():
    # 100 flat, then the price runs through 103 (the stop level) up to 106 and stays there
    rows = [(100, 100, 100.5, 99.5)] * 3 + [(100, 106, 106, 100)] + [(106, 106, 106.5, 105.5)] * 4
    return np.array([[1609459200000 + i * 60000, o, c, h, l, 10] for i, (o, c, h, l) in enumerate(rows)], dtype=float)


def run(fast):
    S.extra = None
    OBS.clear()
    cfg = {'starting_balance': 10_000, 'fee': 0, 'type': 'futures', 'futures_leverage': 1,
           'futures_leverage_mode': 'cross', 'exchange': EX, 'warm_up_candles': 0}
    routes = [{'exchange': EX, 'strategy': S, 'symbol': SYM, 'timeframe': '1m'}]
    research.backtest(cfg, routes, [], {jh.key(EX, SYM): {'exchange': EX, 'symbol': SYM, 'candles': candles()}},
                      fast_mode=fast)
    return dict(OBS)


bad = False
for fast in (False, True):
    o = run(fast)
    print(f'--- fast_mode={fast}')
    print('active orders reported right after the submission :', o['after_submit'])
    print('next candle :', o['next_candle'])
    print('end of run  :', o['end'])
    e = o['end']
    if e['status'] == 'ACTIVE' and e['reported_active'] == 0 and o['next_candle']['in_active_list'] is False:
        bad = True

print()
print('The property requires: the orders reported as active for a symbol are exactly the submitted orders that are')
print('not yet final. Observed: the buy STOP 1 @ 103 is still ACTIVE (neither executed nor cancelled) although the')
print('price traded through 103 up to 106.5, it is reported by neither count_active_orders() / get_active_orders()')
print('nor self.orders, its margin (103 of 10000) stays reserved, and the end-of-session cancel does not reach it.')
if bad:
    print('FAIL: an order submitted via self.broker in should_long()/go_long()/a filter is dropped from the order store by '
          '_execute_filters() -> _reset() when a filter rejects the entry, while it stays ACTIVE with its reservation')
    sys.exit(1)
print('OK: not reproduced')
