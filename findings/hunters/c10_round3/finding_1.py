"""
C10 finding 1: a declaration that is made again with the same (qty, price) as one that has already been FILLED is treated
as "not modified" and silently dropped - no order is submitted at all. (Incomplete repair: only liquidate() forgets the
remembered declaration; the equal hand-written declarations and the entry side still have the defect.)

Futures, one 1m route, both simulators:
 A  long 2 @ market, take_profit=(1, 110) fills. Price falls back to 105, update_position declares take_profit=(1, 110)
    for the remaining unit -> required: reduce-only LIMIT sell 1 @ 110. Observed: nothing; price trades to 116, qty stays 1.
 B  same, but on_reduced_position declares take_profit=(position.qty, self.price) - the documented hand-written market
    close, literally what liquidate() declares -> required: reduce-only MARKET sell 1. Observed: nothing.
 C  long 1 from buy=(1, 100) (market). At price 104 update_position declares buy=(1, 100) to add a unit if the price comes
    back -> required: LIMIT buy 1 @ 100 (better price). Observed: nothing; price trades down to 99, qty stays 1.
"""
import sys, warnings
warnings.filterwarnings('ignore')
import numpy as np
import jesse.helpers as jh
from jesse.strategies import Strategy
from jesse.research import backtest
from jesse.store import store

EX, T0 = 'Binance Perpetual Futures', 1609459200000
UP = [100, 100, 104, 111, 108, 105, 105, 105, 108, 112, 116, 116]
DOWN = [100, 100, 104, 108, 104, 101, 100, 99, 100, 104, 108, 108]
LOG = []


def candles(closes):
    arr, prev = [], 100.0
    for i, c in enumerate(closes):
        arr.append([T0 + i * 60000, prev, float(c), max(prev, c), min(prev, c), 10])
        prev = float(c)
    return np.array(arr)


class Base(Strategy):
    def should_long(self):
        return self.index == 0

    def should_cancel_entry(self):
        return True

    def go_long(self):
        self.buy = 2, self.price

    def on_open_position(self, order):
        self.take_profit = 1, 110

    def after(self):  # (step, price, position qty, resting orders) at the end of every strategy step
        act = [(o.type, o.side, abs(o.qty), o.price) for o in store.orders.get_active_orders(self.exchange, self.symbol) if o.is_active]
        LOG.append((self.index, self.price, self.position.qty, act))


class A(Base):
    def update_position(self):
        if self.position.qty == 1 and self.price == 105:
            self.take_profit = 1, 110


class B(Base):
    def on_reduced_position(self, order):
        self.take_profit = self.position.qty, self.price


class C(Base):
    def go_long(self):
        self.buy = 1, 100

    def on_open_position(self, order):
        pass

    def update_position(self):
        if self.price == 104 and self.index < 4:
            self.buy = 1, 100


def run(cls, closes, fast):
    LOG.clear()
    cfg = {'starting_balance': 10_000, 'fee': 0, 'type': 'futures', 'futures_leverage': 2,
           'futures_leverage_mode': 'cross', 'exchange': EX, 'warm_up_candles': 0}
    routes = [{'exchange': EX, 'strategy': cls, 'symbol': 'BTC-USDT', 'timeframe': '1m'}]
    data = {jh.key(EX, 'BTC-USDT'): {'exchange': EX, 'symbol': 'BTC-USDT', 'candles': candles(closes)}}
    backtest(cfg, routes, [], data, fast_mode=fast)
    return list(LOG)


bad = []
for fast in (False, True):
    for cls, closes, want, ask_price in ((A, UP, 'reduce-only LIMIT sell 1 @ 110', 105), (B, UP, 'reduce-only MARKET sell 1 (110 is the current price)', 110),
                                         (C, DOWN, 'LIMIT buy 1 @ 100', 104)):
        log = run(cls, closes, fast)
        print(f'--- scenario {cls.__name__} fast_mode={fast}: (step, price, position qty, resting orders)')
        for row in log:
            print('     ', row)
        resting = any(r[3] for r in log[4:])
        if not resting and log[-1][2] == 1:
            bad.append(f'scenario {cls.__name__} fast_mode={fast}: required {want}; no order was ever submitted after the declaration, '
                       f'position qty is still {log[-1][2]} at the end')

print('\nproperty: "When a strategy asks for an entry or exit of quantity q at price p, an order of exactly that quantity and price is submitted"')
for b in bad:
    print('observed:', b)
if bad:
    print('FAIL: an exit or entry declared again with the (qty, price) of an already filled one counts as "not modified" and no order is submitted')
    sys.exit(1)
print('OK')
