"""
C10 finding 2: with warm-up candles whose number is not a multiple of the route's timeframe, a hook that runs when a pending
MARKET order is executed at the end of a minute sees a STALE self.price (the close of the partial candle published at the
last fill, not the current price). Exits declared in that hook are routed against the stale price, so the order type no
longer depends only on p relative to the current price - it depends on the length of the warm-up.

Scenario (futures, one 5m route, 1m candles, identical session candles and strategy in both runs):
  step 0 (price 100): buy = (2, 99)                                     -> LIMIT buy
  4th minute after it: candle 100 -> 98, the entry fills at 99; on_open_position declares
        take_profit = [(1, 99.005), (1, 105)]   (99.005 is within 0.015% of 99 -> MARKET, waits for the end of the minute)
  end of that minute (close 98): the MARKET exit is executed -> on_reduced_position declares stop_loss = (1, 98.5)
  98.5 is ABOVE the current price 98 (profit side of a long)  -> the property requires a LIMIT order.
  warm-up of 10 candles: self.price = 98, LIMIT (correct).   warm-up of 7 candles: self.price = 99, a STOP order.
"""
import sys, warnings
warnings.filterwarnings('ignore')
import numpy as np
import jesse.helpers as jh
from jesse.strategies import Strategy
from jesse.research import backtest
from jesse.store import store

EX = 'Binance Perpetual Futures'
T0 = 1609459200000
#          i=0..4 (step after i=4)      i=5  6    7 (fill)  8   9 (step) ...
closes = [100, 100, 100, 100, 100,      100, 100, 98,      98, 98, 98, 98, 98, 98, 98]
OBS = {}


def make(n_warm):
    warm = np.array([[T0 + k * 60000, 100.0, 100.0, 100.0, 100.0, 10] for k in range(n_warm)])
    arr, prev = [], 100.0
    for i, c in enumerate(closes):
        arr.append([T0 + (n_warm + i) * 60000, prev, float(c), max(prev, c), min(prev, c), 10])
        prev = float(c)
    return warm, np.array(arr)


class S(Strategy):
    def should_long(self):
        return self.index == 0

    def should_cancel_entry(self):
        return False

    def go_long(self):
        self.buy = 2, 99

    def on_open_position(self, order):
        self.take_profit = [(1, 99.005), (1, 105)]

    def on_reduced_position(self, order):
        one_minute_close = store.candles.get_current_candle(self.exchange, self.symbol, '1m')[2]
        OBS['self.price'] = self.price
        OBS['position.current_price'] = self.position.current_price
        OBS['close of the current 1m candle'] = one_minute_close
        self.stop_loss = 1, 98.5

    def after(self):
        if self.position.is_open and 'orders' not in OBS:
            OBS['orders'] = [(o.type, o.side, abs(o.qty), o.price) for o in
                             store.orders.get_active_orders(self.exchange, self.symbol) if o.is_active and o.is_stop_loss]


def run(n_warm, fast):
    OBS.clear()
    warm, sess = make(n_warm)
    cfg = {'starting_balance': 10_000, 'fee': 0, 'type': 'futures', 'futures_leverage': 2,
           'futures_leverage_mode': 'cross', 'exchange': EX, 'warm_up_candles': 0}
    routes = [{'exchange': EX, 'strategy': S, 'symbol': 'BTC-USDT', 'timeframe': '5m'}]
    key = jh.key(EX, 'BTC-USDT')
    backtest(cfg, routes, [], {key: {'exchange': EX, 'symbol': 'BTC-USDT', 'candles': sess}},
             warmup_candles={key: {'exchange': EX, 'symbol': 'BTC-USDT', 'candles': warm}}, fast_mode=fast)
    return dict(OBS)


bad = []
for fast in (False, True):
    for n_warm in (10, 7):
        o = run(n_warm, fast)
        print(f'--- fast_mode={fast}, {n_warm} warm-up candles (1m) for the 5m route')
        for k, v in o.items():
            print(f'      {k}: {v}')
        cur = o['position.current_price']
        typ = o['orders'][0][0]
        want = 'LIMIT' if 98.5 > cur else 'STOP'
        print(f'      stop_loss=(1, 98.5) declared at current price {cur}: submitted {typ}, property requires {want}')
        if typ != want or abs(o['self.price'] - cur) > 1e-9:
            bad.append((fast, n_warm, o['self.price'], cur, typ, want))

print()
for b in bad:
    print(f'observed: fast_mode={b[0]} warm-up={b[1]}: hook saw self.price={b[2]} while the current price is {b[3]}; '
          f'exit 98.5 became a {b[4]} order, required {b[5]}')
if bad:
    print('FAIL: with a warm-up length that is not a multiple of the timeframe, exits declared in a hook fired by an end-of-minute '
          'market execution are routed against a stale self.price (STOP instead of LIMIT for a price on the profit side)')
    sys.exit(1)
print('OK')
