"""
C16 - fast simulator, two routes: the list of closed trades (and so the reported streak metrics)
is not in chronological order.

The fast simulator replays a whole chunk of minutes for the first symbol and only then the same
chunk for the second symbol. A trade of the second symbol that closes EARLIER inside the chunk is
therefore appended to the trade list AFTER a later trade of the first symbol. metrics.trades()
derives winning_streak / losing_streak / current_streak from the list order, so the reported
streaks do not follow from the (chronological) PnL sequence and differ from the normal simulator.

Run:  cd /tmp/wt/kc16 && PYTHONPATH=/tmp/wt/kc16 /venv/bin/python /tmp/wt/kc16.out/finding_1.py
"""
import sys
import numpy as np
import jesse.helpers as jh
from jesse import research
from jesse.strategies import Strategy
from jesse.services import report
from jesse.store import store

EX = 'Fake Exchange'
T0 = 1609459200000
N = 40


def flat(special):
    c = np.zeros((N, 6))
    for i in range(N):
        c[i] = [T0 + i * 60000, 100, 100, 100, 100, 1]
    for i, (hi, lo) in special.items():
        c[i][3], c[i][4] = hi, lo
    return c


# BTC: minute 18 spikes to 103 -> take-profit at 102 fills (win), closes at T0+19min
# ETH: minutes 7 and 16 dip to 97 -> stop-loss at 98 fills (loss), closes at T0+8min and T0+17min
candles = {
    jh.key(EX, 'BTC-USDT'): {'exchange': EX, 'symbol': 'BTC-USDT', 'candles': flat({18: (103, 100)})},
    jh.key(EX, 'ETH-USDT'): {'exchange': EX, 'symbol': 'ETH-USDT', 'candles': flat({7: (100, 97), 16: (100, 97)})},
}


def make(entries):
    class S(Strategy):
        def should_long(self):
            return self.index in entries

        def go_long(self):
            self.buy = 1, self.price

        def on_open_position(self, order):
            self.take_profit = 1, 102
            self.stop_loss = 1, 98

        def should_cancel_entry(self):
            return False
    return S


captured = {}
_orig = report.portfolio_metrics
def _capture():  # observation only: keep the trade list before research.backtest() resets the store
    captured['trades'] = [(t.symbol, t.closed_at, t.pnl) for t in store.completed_trades.trades]
    return _orig()
report.portfolio_metrics = _capture

cfg = {'starting_balance': 10000, 'fee': 0, 'type': 'futures', 'futures_leverage': 1,
       'futures_leverage_mode': 'cross', 'exchange': EX, 'warm_up_candles': 0}


def run(fast):
    routes = [
        {'exchange': EX, 'strategy': make({2}), 'symbol': 'BTC-USDT', 'timeframe': '5m'},
        {'exchange': EX, 'strategy': make({0, 2}), 'symbol': 'ETH-USDT', 'timeframe': '5m'},
    ]
    m = research.backtest(cfg, routes, [], candles, fast_mode=fast)['metrics']
    return m, list(captured['trades'])


def streaks(pnls):
    w = l = cw = cl = 0
    for p in pnls:
        cw, cl = (cw + 1, 0) if p > 0 else ((0, cl + 1) if p < 0 else (0, 0))
        w, l = max(w, cw), max(l, cl)
    return w, l, (cw if cw else -cl)


keys = ('winning_streak', 'losing_streak', 'current_streak')
bad = False
for fast in (False, True):
    m, tr = run(fast)
    chrono = sorted(tr, key=lambda t: t[1])
    exp = streaks([t[2] for t in chrono])
    got = tuple(m[k] for k in keys)
    print(f"fast_mode={fast}")
    print("  trade list as stored  :", [(s, int((c - T0) / 60000), round(p, 2)) for s, c, p in tr], "(symbol, closed at minute, PnL)")
    print("  chronological sequence:", [(s, int((c - T0) / 60000), round(p, 2)) for s, c, p in chrono])
    print("  reported (winning_streak, losing_streak, current_streak):", got)
    print("  required by the chronological PnL sequence             :", exp)
    if got != exp:
        bad = True

if bad:
    print("FAIL: in fast mode with two routes the closed-trade list is out of chronological order, so the reported "
          "winning/losing/current streaks do not follow from the PnL sequence (and differ from the normal simulator).")
    sys.exit(1)
print("OK")
