"""
C16 - Strategy.metrics (the metrics reported to a running strategy) goes stale: it is memoised per
`self.trades_count` (the trades of THIS route only) although it is computed from the trades of ALL
routes (store.completed_trades.trades == self.trades) and from the daily balance series.

Part A (two routes): after the other route has closed two more trades, self.metrics of the first
route still reports total=1 / the old net profit, while self.trades holds 3 trades.
Part B (one route): the equity series keeps growing (one sample per day) but self.metrics keeps
the max_drawdown of the day on which it was first read, although a much deeper (unrealised)
drawdown has been sampled into self.daily_balances since.

Run:  cd /tmp/wt/kc16 && PYTHONPATH=/tmp/wt/kc16 /venv/bin/python /tmp/wt/kc16.out/finding_2.py
"""
import sys
import numpy as np
import jesse.helpers as jh
from jesse import research
from jesse.strategies import Strategy

EX = 'Fake Exchange'
T0 = 1609459200000
cfg = {'starting_balance': 10000, 'fee': 0, 'type': 'futures', 'futures_leverage': 1,
       'futures_leverage_mode': 'cross', 'exchange': EX, 'warm_up_candles': 0}


def series(closes):
    c = np.zeros((len(closes), 6))
    prev = closes[0]
    for i, p in enumerate(closes):
        c[i] = [T0 + i * 60000, prev, p, max(prev, p), min(prev, p), 1]
        prev = p
    return c


obs = {}

# ---------------------------------------------------------------- part A: two routes
class First(Strategy):       # BTC: one winning trade at the very beginning, then only reads self.metrics
    def should_long(self): return self.index == 0
    def go_long(self): self.buy = 1, self.price
    def should_cancel_entry(self): return False
    def update_position(self):
        if self.index == 3: self.liquidate()
    def before(self):
        if self.trades_count == 1:
            _ = self.metrics['total']           # first read: 1 trade so far (correct at that time)
    def before_terminate(self):
        obs['A'] = (self.metrics['total'], self.metrics['net_profit'], len(self.trades), sum(t.pnl for t in self.trades))

class Second(Strategy):      # ETH: two more trades later on
    def should_long(self): return self.index in (10, 20)
    def go_long(self): self.buy = 1, self.price
    def should_cancel_entry(self): return False
    def update_position(self):
        if self.index in (13, 23): self.liquidate()

n = 40
up = [100 + i for i in range(n)]
candles = {jh.key(EX, s): {'exchange': EX, 'symbol': s, 'candles': series(up)} for s in ('BTC-USDT', 'ETH-USDT')}
routes = [{'exchange': EX, 'strategy': First, 'symbol': 'BTC-USDT', 'timeframe': '1m'},
          {'exchange': EX, 'strategy': Second, 'symbol': 'ETH-USDT', 'timeframe': '1m'}]
research.backtest(cfg, routes, [], candles)
total, net, n_trades, pnl_sum = obs['A']
print("Part A (two routes), read by route 1 in before_terminate():")
print(f"  self.metrics['total'] = {total}, self.metrics['net_profit'] = {net}")
print(f"  len(self.trades)      = {n_trades}, sum of trade PnL          = {pnl_sum}")
print("  required: total == number of closed trades and net_profit == sum of trade PnL")
bad_a = (total != n_trades) or abs(net - pnl_sum) > 1e-9

# ---------------------------------------------------------------- part B: one route, several days
class Holder(Strategy):      # one small winning trade on day 1, then a position that sinks for days
    def should_long(self): return self.index in (0, 1440 + 10)
    def go_long(self): self.buy = 10, self.price
    def should_cancel_entry(self): return False
    def update_position(self):
        if self.index == 5: self.liquidate()
    def before(self):
        if self.index == 1440 + 5:
            obs['B_first'] = self.metrics['max_drawdown']     # read once on day 2: no drawdown yet
        if self.index == 1440 * 5 + 5:
            d = np.array(self.daily_balances, float)
            obs['B'] = (self.metrics['max_drawdown'], ((d / np.maximum.accumulate(d)).min() - 1) * 100, list(d))

days = 6
closes = [100 + 0.01 * min(i, 10) for i in range(1440 + 10)]            # flat/up a little on day 1
closes += [closes[-1] - 0.01 * k for k in range(1, 1440 * (days - 1) - 10 + 1)]  # steady decline afterwards
candles = {jh.key(EX, 'BTC-USDT'): {'exchange': EX, 'symbol': 'BTC-USDT', 'candles': series(closes)}}
routes = [{'exchange': EX, 'strategy': Holder, 'symbol': 'BTC-USDT', 'timeframe': '1m'}]
research.backtest(cfg, routes, [], candles)
reported, expected, d = obs['B']
print("Part B (one route), read on day 6 with the same single closed trade:")
print(f"  self.daily_balances          = {[round(x, 2) for x in d]}")
print(f"  self.metrics['max_drawdown'] = {reported}   (value first read on day 2: {obs['B_first']})")
print(f"  required (standard max drawdown of that equity series, in %) = {expected:.4f}")
bad_b = not abs(reported - expected) < 1e-6

if bad_a or bad_b:
    print("FAIL: Strategy.metrics is memoised by the route's own trades_count, so the reported total/net profit ignore "
          "trades closed by other routes and the reported drawdown/ratios ignore equity samples taken since the first read.")
    sys.exit(1)
print("OK")
