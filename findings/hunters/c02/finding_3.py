"""
C02 finding 3 - fast simulator, two routes: every symbol is simulated for the WHOLE chunk before the next symbol
starts. When a fill of symbol A late in the chunk makes the strategy of symbol B replace its take-profit
(on_route_open_position + self.take_profit = ..., a supported modification), the new order is created at A's fill time
but B's chunk is then replayed from its first minute, so the new order fills on a candle that traded BEFORE the
order was submitted (executed_at < created_at).

Run:  cd <jesse checkout> && PYTHONPATH=<jesse checkout> python finding_3.py
"""
import os, sys, warnings
warnings.filterwarnings('ignore')
if 'PYTHONPATH' not in os.environ:
    sys.path.insert(0, os.environ.get('JESSE_ROOT', '/tmp/wt/hc02'))
import numpy as np
from jesse.research import backtest
from jesse.strategies import Strategy
from jesse.models import Order

T0 = 1609459200000
ORDERS = []
_orig_init = Order.__init__
def _init(self, attributes=None, **kw):          # only records the created orders, changes nothing
    _orig_init(self, attributes, **kw)
    ORDERS.append(self)
Order.__init__ = _init


class EthBuyTheDip(Strategy):                     # route 1: LIMIT buy 49, filled in minute 9
    def should_long(self):
        return self.index == 0

    def should_cancel_entry(self):
        return False

    def go_long(self):
        self.buy = (1, 49.0)


class BtcLong(Strategy):                          # route 2: long at market, take-profit far away at 110
    def should_long(self):
        return self.index == 0

    def go_long(self):
        self.buy = (1, self.price)
        self.take_profit = (1, 110.0)

    def on_route_open_position(self, strategy):   # the other route opened -> tighten the take-profit to 103
        if self.is_long:
            self.take_profit = (1, 103.0)


def arr(rows):
    return np.array([[T0 + i * 60_000, o, c, h, l, 10.0] for i, (o, c, h, l) in enumerate(rows)])

E, B = (50, 50, 50.2, 49.8), (100, 100, 100.5, 99.5)
ETH = [E] * 9 + [(50, 49.5, 50, 48.5)] + [(49.5, 49.5, 49.6, 49.4)] * 5   # 49 trades only in minute 9
BTC = [B] * 6 + [(100, 100, 104, 99.5)] + [B] * 8                         # 103 trades only in minute 6


def run(fast_mode):
    ORDERS.clear()
    config = {'starting_balance': 100_000, 'fee': 0, 'type': 'futures', 'futures_leverage': 2,
              'futures_leverage_mode': 'cross', 'exchange': 'Sandbox', 'warm_up_candles': 0}
    routes = [{'exchange': 'Sandbox', 'strategy': EthBuyTheDip, 'symbol': 'ETH-USDT', 'timeframe': '5m'},
              {'exchange': 'Sandbox', 'strategy': BtcLong, 'symbol': 'BTC-USDT', 'timeframe': '5m'}]
    candles = {'Sandbox-ETH-USDT': {'exchange': 'Sandbox', 'symbol': 'ETH-USDT', 'candles': arr(ETH)},
               'Sandbox-BTC-USDT': {'exchange': 'Sandbox', 'symbol': 'BTC-USDT', 'candles': arr(BTC)}}
    backtest(config, routes, [], candles, fast_mode=fast_mode)
    tp = [o for o in ORDERS if o.symbol == 'BTC-USDT' and o.price == 103.0][0]
    eth = [o for o in ORDERS if o.symbol == 'ETH-USDT' and o.price == 49.0][0]
    m = lambda ts: None if ts is None else (ts - T0) / 60_000
    return {'eth_fill': m(eth.executed_at), 'tp_created': m(tp.created_at), 'tp_status': tp.status,
            'tp_executed': m(tp.executed_at) if tp.is_executed else None}


print('ETH-USDT LIMIT buy @ 49 fills in minute 9 (the only candle reaching 49), i.e. at time = minute 10.')
print('That fill fires on_route_open_position of the BTC-USDT strategy, which replaces its take-profit by LIMIT sell @ 103.')
print('BTC-USDT trades at 103 only in minute 6 (high 104); from minute 9 on its range is [99.5, 100.5].')
print('property C02: an order is never filled before it was submitted -> the 103 take-profit must stay unfilled.')
print()
failed = False
for fast in (False, True):
    r = run(fast)
    bad = r['tp_executed'] is not None and r['tp_executed'] < r['tp_created']
    print(f"fast_mode = {fast}: ETH buy executed_at=minute {r['eth_fill']:g}; BTC LIMIT sell @103 created_at=minute "
          f"{r['tp_created']:g}, status={r['tp_status']}, executed_at=minute {r['tp_executed']}"
          f"   {'<-- VIOLATION' if bad else 'ok'}")
    if fast and (bad or r['tp_status'] == 'EXECUTED'):
        failed = True
print()
if failed:
    print('observed: in fast mode the take-profit submitted at minute 10 is executed with executed_at = minute 7, on the')
    print('          BTC candle of minute 6 that traded 3 minutes BEFORE the order existed; the position is closed at 103,')
    print('          a price BTC never reached after the submission. The step simulator leaves the order unfilled.')
    print('required: a LIMIT/STOP order fills in the first minute FROM ITS SUBMISSION ONWARD whose range contains its price,')
    print('          never before it was submitted.')
    print('FAIL: fast simulator fills an order created by a cross-route event on a candle that traded before the order '
          'was submitted (executed_at < created_at), because symbols are simulated chunk-by-chunk one after another')
    sys.exit(1)
print('PASS: not reproduced')
