"""
C02 finding 1 - fast simulator: after the first fill inside a candle the remaining executing orders are
NOT re-sorted along the assumed price path, so an order whose price traded in that very 1m candle is
skipped and stays active (missed fill). No gaps, one route, one symbol, 1m timeframe (chunk = 1 minute).

Run:  cd <jesse checkout> && PYTHONPATH=<jesse checkout> python finding_1.py
"""
import os, sys, warnings
warnings.filterwarnings('ignore')
if 'PYTHONPATH' not in os.environ:
    sys.path.insert(0, os.environ.get('JESSE_ROOT', '/tmp/wt/hc02'))
import numpy as np
from jesse.research import backtest
from jesse.strategies import Strategy
from jesse.models import Order

T0 = 1609459200000
ORDERS = []
_orig_init = Order.__init__
def _init(self, attributes=None, **kw):          # only records the created orders, changes nothing
    _orig_init(self, attributes, **kw)
    ORDERS.append(self)
Order.__init__ = _init


class ThreeEntries(Strategy):
    def should_long(self):
        return self.index == 0

    def should_cancel_entry(self):
        return False

    def go_long(self):
        # price is 100: 99 -> LIMIT buy, 105 and 102 -> STOP buys (multi-point entry)
        self.buy = [(1, 99.0), (1, 105.0), (1, 102.0)]


# (open, close, high, low) 1m candles; no gaps anywhere
ROWS = [(100, 100, 100.5, 99.5),       # minute 0: strategy submits the three entry orders at its close
        (100, 104, 106, 98)]           # minute 1: range [98, 106] contains 99, 102 and 105
ROWS += [(104, 104, 104.5, 103.5)] * 8  # minutes 2..9: range [103.5, 104.5] contains none of them
CANDLES = np.array([[T0 + i * 60_000, o, c, h, l, 10.0] for i, (o, c, h, l) in enumerate(ROWS)])


def run(fast_mode):
    ORDERS.clear()
    config = {'starting_balance': 100_000, 'fee': 0, 'type': 'futures', 'futures_leverage': 2,
              'futures_leverage_mode': 'cross', 'exchange': 'Sandbox', 'warm_up_candles': 0}
    routes = [{'exchange': 'Sandbox', 'strategy': ThreeEntries, 'symbol': 'BTC-USDT', 'timeframe': '1m'}]
    candles = {'Sandbox-BTC-USDT': {'exchange': 'Sandbox', 'symbol': 'BTC-USDT', 'candles': CANDLES.copy()}}
    backtest(config, routes, [], candles, fast_mode=fast_mode)
    out = {}
    for o in ORDERS:
        if o.type in ('LIMIT', 'STOP'):
            minute = None if o.executed_at is None or not o.is_executed else int((o.executed_at - T0) // 60_000) - 1
            out[o.price] = (o.type, o.status, minute)
    return out


print('1m candles (open, close, high, low):')
for i, r in enumerate(ROWS[:3]):
    print(f'   minute {i}: {r}')
print('entry orders submitted at the close of minute 0: LIMIT buy 99, STOP buy 105, STOP buy 102')
print('property C02: each of them must fill in minute 1 (range [98,106] contains 99, 102 and 105) at its own price')
print()
failed = False
for fast in (False, True):
    res = run(fast)
    print('fast_mode =', fast)
    for price in (99.0, 102.0, 105.0):
        typ, status, minute = res[price]
        ok = status == 'EXECUTED' and minute == 1
        print(f'   {typ:5s} buy @ {price}: status={status}, filled in minute={minute}   {"ok" if ok else "<-- VIOLATION"}')
        if fast and not ok:
            failed = True
print()
if failed:
    print('observed: in fast mode the STOP buy @ 102 is still ACTIVE after minute 1 although 98 <= 102 <= 106; it is')
    print('          never filled later (it is cancelled at the end of the session). The step simulator fills it.')
    print('required: an active order is never left unfilled at the end of a minute whose range contained its price.')
    print('FAIL: fast simulator does not re-sort the executing orders after a fill, so a resting order whose price '
          'traded inside the same 1m candle (STOP buy 102 in candle [98,106]) is skipped and never filled')
    sys.exit(1)
print('PASS: not reproduced')
