"""
C02 finding 2 - fast simulator: a resting order whose price lies in the GAP between a 1m close and the next 1m
open inside a chunk is dropped by _sort_execution_orders (it matches the orders against the raw candles, not
against the candles extended to the previous close) whenever at least one other order is also in range of the
chunk. The order is then never examined for the gap candle and stays active: a missed fill.

Run:  cd <jesse checkout> && PYTHONPATH=<jesse checkout> python finding_2.py
"""
import os, sys, warnings
warnings.filterwarnings('ignore')
if 'PYTHONPATH' not in os.environ:
    sys.path.insert(0, os.environ.get('JESSE_ROOT', '/tmp/wt/hc02'))
import numpy as np
from jesse.research import backtest
from jesse.strategies import Strategy
from jesse.models import Order

T0 = 1609459200000
ORDERS = []
_orig_init = Order.__init__
def _init(self, attributes=None, **kw):          # only records the created orders, changes nothing
    _orig_init(self, attributes, **kw)
    ORDERS.append(self)
Order.__init__ = _init


class TwoLimitBuys(Strategy):
    def should_long(self):
        return self.index == 0

    def should_cancel_entry(self):
        return False

    entries = [(1, 97.0), (1, 90.5)]           # price is 100 -> two LIMIT buys

    def go_long(self):
        self.buy = list(self.entries)


FLAT_HI = (100, 100, 100.5, 99.5)
FLAT_LO = (91, 91, 91.5, 90.8)
# (open, close, high, low); 5m route -> fast-mode chunks are minutes 0-4, 5-9, 10-14
ROWS = [FLAT_HI] * 5 + [
    FLAT_HI,                   # minute 5: closes at 100
    (95, 95, 95.5, 94),        # minute 6: opens at 95 -> gap 100 -> 95; extended range [94, 100] contains 97
    (95, 91, 95, 90),          # minute 7: range [90, 95] contains 90.5
    FLAT_LO, FLAT_LO,          # minutes 8, 9
] + [FLAT_LO] * 5
CANDLES = np.array([[T0 + i * 60_000, o, c, h, l, 10.0] for i, (o, c, h, l) in enumerate(ROWS)])


def run(fast_mode, entries=((1, 97.0), (1, 90.5))):
    ORDERS.clear()
    TwoLimitBuys.entries = list(entries)
    config = {'starting_balance': 100_000, 'fee': 0, 'type': 'futures', 'futures_leverage': 2,
              'futures_leverage_mode': 'cross', 'exchange': 'Sandbox', 'warm_up_candles': 0}
    routes = [{'exchange': 'Sandbox', 'strategy': TwoLimitBuys, 'symbol': 'BTC-USDT', 'timeframe': '5m'}]
    candles = {'Sandbox-BTC-USDT': {'exchange': 'Sandbox', 'symbol': 'BTC-USDT', 'candles': CANDLES.copy()}}
    backtest(config, routes, [], candles, fast_mode=fast_mode)
    out = {}
    for o in ORDERS:
        if o.type == 'LIMIT':
            minute = int((o.executed_at - T0) // 60_000) - 1 if o.is_executed else None
            out[o.price] = (o.status, minute)
    return out


print('1m candles (open, close, high, low) of the second 5m chunk:')
for i in range(5, 10):
    print(f'   minute {i}: {ROWS[i]}')
print('LIMIT buy @ 97 and LIMIT buy @ 90.5 are submitted at the close of minute 4 (price 100) and never cancelled by the strategy')
print('property C02: the range of minute 6 extended to the previous close is [94, 100] and contains 97 -> LIMIT buy @ 97')
print('              must fill in minute 6 at 97; LIMIT buy @ 90.5 must fill in minute 7 at 90.5')
print()
failed = False
for fast in (False, True):
    res = run(fast)
    print('fast_mode =', fast)
    for price, want in ((97.0, 6), (90.5, 7)):
        status, minute = res[price]
        ok = status == 'EXECUTED' and minute == want
        print(f'   LIMIT buy @ {price}: status={status}, filled in minute={minute} (required: {want})   {"ok" if ok else "<-- VIOLATION"}')
        if fast and not ok:
            failed = True
solo = run(True, entries=[(1, 97.0)])
print('control, fast_mode = True with the 97 order alone:', solo[97.0], '(no sorting happens for a single order)')
print()
if failed:
    print('observed: in fast mode the LIMIT buy @ 97 survives the chunk although the price moved 100 -> 95 through 97;')
    print('          it is never filled (cancelled at the end of the session); the step simulator fills it in minute 6.')
    print('required: filled in the first minute whose range (extended to the previous close) contains the price; an active')
    print('          order is never left unfilled at the end of a chunk whose range contained its price.')
    print('FAIL: fast simulator never fills a LIMIT order whose price lies in a close->open gap inside a chunk when '
          'another order is also in range of the chunk (_sort_execution_orders drops it)')
    sys.exit(1)
print('PASS: not reproduced')
