"""C06 finding 3: two take-profits of exactly half the position each (qty/2, qty/2 - their sum is EXACTLY qty,
halving a binary float is exact) do not close the position: Position._update_qty / the close test use
jesse.utils.sum_floats/subtract_floats, which add the SHORTEST DECIMAL REPRS (Decimal(str(x))) instead of the
float values, and leave a residue of 3e-18.  The last exit is therefore reported through on_reduced_position
with a position size of 3e-18 (the fills imply 0 -> on_close_position), the cycle stays open (the strategy
cannot trade again), and the trade is only closed at the end of the session: wrong closed_at and an extra
3e-18 order in its order list.  Uses only the public strategy API.
Run: cd /tmp/wt/hc06 && PYTHONPATH=/tmp/wt/hc06 /venv/bin/python /tmp/wt/hc06.out/finding_3.py
"""
import sys, warnings
warnings.filterwarnings('ignore')
from fractions import Fraction
import numpy as np
import jesse.helpers as jh
from jesse.research import backtest
from jesse.strategies import Strategy
from jesse.store import store

CAP = {}
EX = 'Binance Perpetual Futures'
P0 = 26974.97
T0 = 1609459200000


class TwoHalves(Strategy):
    def before(self):
        if 'ct' not in CAP:  # keep the session objects: research.backtest resets the store at the end
            CAP['ct'] = store.completed_trades
            CAP['hooks'] = []
            CAP['should_long_calls_after_exit'] = 0
            CAP['qty'] = None

    def should_long(self):
        if self.index == 0:
            return True
        CAP['should_long_calls_after_exit'] += 1      # only asked while the position is closed
        return False

    def go_long(self):
        qty = 1000 / self.price                       # $1000 worth; 0.03707140360119029
        CAP['qty'] = qty
        self.buy = qty, self.price
        self.take_profit = [(qty / 2, 27100), (qty / 2, 27200)]

    def on_open_position(self, order): CAP['hooks'].append(('open', self.position.qty, self.time))
    def on_reduced_position(self, order): CAP['hooks'].append(('reduced', self.position.qty, self.time))
    def on_close_position(self, order): CAP['hooks'].append(('close', self.position.qty, self.time))


def candles(closes):
    rows, prev = [], closes[0]
    for i, c in enumerate(closes):
        rows.append([T0 + i * 60000, prev, c, max(prev, c), min(prev, c), 10])
        prev = c
    return np.array(rows, dtype=float)


def run(fast_mode):
    CAP.clear()
    cfg = {'starting_balance': 10000, 'fee': 0.0005, 'type': 'futures', 'futures_leverage': 2,
           'futures_leverage_mode': 'cross', 'exchange': EX, 'warm_up_candles': 0}
    routes = [{'exchange': EX, 'strategy': TwoHalves, 'symbol': 'BTC-USDT', 'timeframe': '1m'}]
    closes = [P0, P0, 27050, 27150, 27250, 27100, 27000, 26900, 26950, 26950]
    data = {jh.key(EX, 'BTC-USDT'): {'exchange': EX, 'symbol': 'BTC-USDT', 'candles': candles(closes)}}
    backtest(cfg, routes, [], data, fast_mode=fast_mode)


bad = []
for fast_mode in (False, True):
    run(fast_mode)
    q = CAP['qty']
    # the fills: +q, -q/2, -q/2.  Exactly zero, as floats and as exact rationals
    assert q - q / 2 - q / 2 == 0.0 and Fraction(q) - 2 * Fraction(q / 2) == 0
    t = CAP['ct'].trades[0]
    second_tp_time = T0 + 5 * 60000       # the 27200 take-profit fills in the 5th candle (27150 -> 27250)
    print(f'--- fast_mode={fast_mode}   qty={q!r}  qty/2={q / 2!r}')
    print('hooks observed :', [(h[0], h[1], int(h[2])) for h in CAP['hooks']])
    print('hooks required :', [('open', q), ('reduced', q / 2), ('close', 0)], '(close at', second_tp_time, ')')
    print('trade observed : closed_at=%d orders=%s' % (t.closed_at, [(o.side, o.qty, o.price) for o in t.orders]))
    print('trade required : closed_at=%d orders=[buy q @ %s, sell q/2 @ 27100, sell q/2 @ 27200]' % (second_tp_time, P0))
    print('should_long() evaluated after the two exits:', CAP['should_long_calls_after_exit'],
          'times (4 candles remained; 0 means the strategy still believed it was in a position)')
    if [h[0] for h in CAP['hooks']] != ['open', 'reduced', 'close'] or CAP['hooks'][-1][2] != second_tp_time:
        bad.append('hooks')
    if t.closed_at != second_tp_time or len(t.orders) != 3:
        bad.append('trade')

print()
print('PROPERTY C06 requires: each position change is reported once through the matching hook with the position size '
      'the fill implies (0 after the second half -> on_close_position), and the closed trade has the close time and '
      'the order list of the fills of the cycle.')
if bad:
    print('FAIL: exits of qty/2 + qty/2 leave a 3e-18 residue (sum_floats adds decimal reprs), so the final exit fires '
          'on_reduced_position instead of on_close_position and the trade is closed only at session end with a wrong '
          'closed_at and a phantom 3e-18 order')
    sys.exit(1)
print('PASS')
