"""C06 finding 2: a position flip (one order that closes a long and opens a short; handled explicitly in
Position._on_executed_order) is not reported/recorded as two cycles: on_close_position is never called for
the long cycle, the whole order is booked into the trade that closes, and the new (short) trade has NO entry
fill -> qty 0, entry price / PnL NaN, and the reported net profit disagrees with the wallet.
The flip is produced with the strategy's own broker (self.broker.sell_at_market): entry orders submitted through
self.buy/self.sell can never oppose an open position, so this is the only way a futures strategy can flip.
Run: cd /tmp/wt/hc06 && PYTHONPATH=/tmp/wt/hc06 /venv/bin/python /tmp/wt/hc06.out/finding_2.py
"""
import sys, math, warnings
warnings.filterwarnings('ignore')
import numpy as np
import jesse.helpers as jh
from jesse.research import backtest
from jesse.strategies import Strategy
from jesse.store import store

CAP = {}
EX = 'Binance Perpetual Futures'
FEE = 0.001


class Flipper(Strategy):
    def before(self):
        if 'ct' not in CAP:  # keep the session objects: research.backtest resets the store at the end
            CAP['ct'] = store.completed_trades
            CAP['exchange'] = self.position.exchange
            CAP['hooks'] = []

    def should_long(self):
        return self.index == 0

    def go_long(self):
        self.buy = 1, self.price                      # long 1 @ 100

    def update_position(self):
        if self.index == 3 and self.is_long:
            self.broker.sell_at_market(3)             # sell 3 @ 110: closes the long 1 and opens a short 2
        elif self.index == 6 and self.is_short:
            self.liquidate()                          # buy 2 @ 105: closes the short

    def on_open_position(self, order): CAP['hooks'].append(('open', self.position.qty))
    def on_increased_position(self, order): CAP['hooks'].append(('increased', self.position.qty))
    def on_reduced_position(self, order): CAP['hooks'].append(('reduced', self.position.qty))
    def on_close_position(self, order): CAP['hooks'].append(('close', self.position.qty))


def candles(closes):
    rows, prev = [], closes[0]
    for i, c in enumerate(closes):
        rows.append([1609459200000 + i * 60000, prev, c, max(prev, c), min(prev, c), 10])
        prev = c
    return np.array(rows, dtype=float)


def run(fast_mode):
    CAP.clear()
    cfg = {'starting_balance': 10000, 'fee': FEE, 'type': 'futures', 'futures_leverage': 2,
           'futures_leverage_mode': 'cross', 'exchange': EX, 'warm_up_candles': 0}
    routes = [{'exchange': EX, 'strategy': Flipper, 'symbol': 'BTC-USDT', 'timeframe': '1m'}]
    data = {jh.key(EX, 'BTC-USDT'): {'exchange': EX, 'symbol': 'BTC-USDT',
                                     'candles': candles([100, 100, 105, 110, 110, 108, 105, 105, 105, 105])}}
    return backtest(cfg, routes, [], data, fast_mode=fast_mode)['metrics']


exp_hooks = [('open', 1), ('close', 0), ('open', -2), ('close', 0)]
exp_trades = [('long', 1, 100, 110, 10 - FEE * (100 + 110)), ('short', 2, 110, 105, 10 - FEE * 2 * (110 + 105))]

bad = []
for fast_mode in (False, True):
    m = run(fast_mode)
    wallet_change = CAP['exchange'].assets['USDT'] - 10000
    print(f'--- fast_mode={fast_mode}')
    print('hooks observed :', CAP['hooks'])
    print('hooks required :', exp_hooks)
    for t, e in zip(CAP['ct'].trades, exp_trades):
        print(f'trade observed : {t.type} qty={t.qty} entry={t.entry_price} exit={t.exit_price} pnl={t.pnl} '
              f'orders={[(o.side, o.qty, o.price) for o in t.orders]}')
        print(f'trade required : {e[0]} qty={e[1]} entry={e[2]} exit={e[3]} pnl={e[4]:.4f}')
        if t.type != e[0] or not (abs(t.qty - e[1]) < 1e-9) or math.isnan(t.pnl) or abs(t.pnl - e[4]) > 1e-6:
            bad.append('trade')
    print(f"wallet change={wallet_change:.4f}  metrics net_profit={m['net_profit']}  "
          f"finishing-starting={m['finishing_balance'] - m['starting_balance']:.4f}")
    if [(h[0], float(h[1])) for h in CAP['hooks']] != [(h[0], float(h[1])) for h in exp_hooks]:
        bad.append('hooks')
    if not abs(m['net_profit'] - wallet_change) < 1e-6:
        bad.append('net_profit')

print()
print('PROPERTY C06 requires: well-formed cycles (open ... close), each change reported exactly once through the '
      'matching hook; every cycle yields one closed trade with the side/qty/entry/exit/orders of its fills, and the net '
      'PnL of all closed trades equals the wallet change (19.36).')
if bad:
    print('FAIL: a position flip never fires on_close_position for the closed side and leaves the new trade without '
          'its entry fill (qty 0, entry price and PnL NaN), so net profit is 9.79 while the wallet changed by 19.36')
    sys.exit(1)
print('PASS')
