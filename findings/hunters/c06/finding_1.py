"""C06 finding 1: a full-size (reduce-only) stop that fills after a partial take-profit is
written into the trade log with its NOMINAL quantity instead of the quantity it filled, so the
closed trade's exit price / fee / PnL are not those of the fills and the reported net profit
disagrees with the wallet (futures).  Uses only the public strategy API.
Run: cd /tmp/wt/hc06 && PYTHONPATH=/tmp/wt/hc06 /venv/bin/python /tmp/wt/hc06.out/finding_1.py
"""
import sys, warnings
warnings.filterwarnings('ignore')
import numpy as np
import jesse.helpers as jh
from jesse.research import backtest
from jesse.strategies import Strategy
from jesse.store import store

CAP = {}
EX = 'Binance Perpetual Futures'
FEE = 0.001


class PartialTpThenFullStop(Strategy):
    def before(self):
        if 'ct' not in CAP:  # keep the session objects: research.backtest resets the store at the end
            CAP['ct'] = store.completed_trades
            CAP['exchange'] = self.position.exchange
            CAP['hooks'] = []

    def should_long(self):
        return self.index == 0

    def go_long(self):
        self.buy = 10, self.price          # market entry: 10 @ 100
        self.take_profit = 5, 110          # partial take-profit: half of the position
        self.stop_loss = 10, 90            # full-size stop, never touched by the strategy again

    def on_open_position(self, order): CAP['hooks'].append(('open', self.position.qty))
    def on_reduced_position(self, order): CAP['hooks'].append(('reduced', self.position.qty))
    def on_close_position(self, order): CAP['hooks'].append(('close', self.position.qty))


def candles(closes):
    rows, prev = [], closes[0]
    for i, c in enumerate(closes):
        rows.append([1609459200000 + i * 60000, prev, c, max(prev, c), min(prev, c), 10])
        prev = c
    return np.array(rows, dtype=float)


def run(fast_mode):
    CAP.clear()
    cfg = {'starting_balance': 10000, 'fee': FEE, 'type': 'futures', 'futures_leverage': 2,
           'futures_leverage_mode': 'cross', 'exchange': EX, 'warm_up_candles': 0}
    routes = [{'exchange': EX, 'strategy': PartialTpThenFullStop, 'symbol': 'BTC-USDT', 'timeframe': '1m'}]
    data = {jh.key(EX, 'BTC-USDT'): {'exchange': EX, 'symbol': 'BTC-USDT',
                                     'candles': candles([100, 100, 105, 111, 105, 95, 89, 92, 92])}}
    res = backtest(cfg, routes, [], data, fast_mode=fast_mode)
    return res['metrics']


# what the fills are: buy 10 @ 100, sell 5 @ 110 (take-profit), the stop (10 @ 90) can only fill the 5 that are left
exp_exit = (5 * 110 + 5 * 90) / 10                                 # 100.0
exp_fee = FEE * (10 * 100 + 5 * 110 + 5 * 90)                      # 2.0
exp_pnl = (5 * 110 + 5 * 90 - 10 * 100) - exp_fee                  # -2.0

bad = []
for fast_mode in (False, True):
    m = run(fast_mode)
    t = CAP['ct'].trades[0]
    wallet_change = CAP['exchange'].assets['USDT'] - 10000
    print(f'--- fast_mode={fast_mode}')
    print('hooks                :', CAP['hooks'])
    print('orders of the trade  :', [(o.side, o.qty, o.price) for o in t.orders])
    print(f'trade exit_price     : {t.exit_price:.6f}   (fills imply {exp_exit})')
    print(f'trade fee            : {t.fee:.6f}   (fills imply {exp_fee})')
    print(f'trade net PnL        : {t.pnl:.6f}   (fills imply {exp_pnl})')
    print(f'wallet balance change: {wallet_change:.6f}')
    print(f"metrics: net_profit={m['net_profit']:.6f}  finishing-starting={m['finishing_balance'] - m['starting_balance']:.6f}")
    if abs(t.exit_price - exp_exit) > 1e-6:
        bad.append('exit_price')
    if abs(t.pnl - wallet_change) > 1e-6:
        bad.append('pnl!=wallet')
    if abs(m['net_profit'] - (m['finishing_balance'] - m['starting_balance'])) > 1e-6:
        bad.append('net_profit!=balance')

print()
print('PROPERTY C06 requires: the closed trade has the quantity-weighted exit price of the FILLS of the cycle '
      '(100.0), and in a futures session the net PnL of the closed trades equals the change of the wallet balance '
      '(-2.0), so net_profit and finishing_balance agree.')
if bad:
    print('FAIL: after a partial take-profit a full-size reduce-only stop is logged with its nominal qty (10 instead '
          'of the 5 it filled): trade exit price 96.67 instead of 100 and net profit -35.3 while the wallet changed by -2.0')
    sys.exit(1)
print('PASS')
