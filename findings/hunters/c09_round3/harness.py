"""Harness for C09: plan-driven strategy + instrumented liquidation check (no source modification)."""
import warnings
warnings.filterwarnings('ignore')
import numpy as np
import jesse.helpers as jh
from jesse.strategies import Strategy
from jesse.research import backtest
from jesse.modes import backtest_mode as bm
from jesse.store import store
from jesse.services import selectors
from jesse.models import Order

EX = 'Binance Perpetual Futures'
T0 = 1609459200000  # 2021-01-01

PLAN = {}
LOG = []
CHECKS = []
EXECS = []
STATE = {}


def mk_candles(rows, t0=T0):
    """rows: list of (open, close, high, low)"""
    out = []
    for i, (o, c, h, l) in enumerate(rows):
        out.append([t0 + i * 60_000, o, c, h, l, 10.0])
    return np.array(out, dtype=float)


def path_candles(closes, wick=0.0, first_open=None):
    rows = []
    prev = closes[0] if first_open is None else first_open
    for c in closes:
        o = prev
        rows.append((o, c, max(o, c) + wick, min(o, c) - wick))
        prev = c
    return mk_candles(rows)


class PlanStrategy(Strategy):
    def _act(self, where):
        a = PLAN.get((self.symbol, where, self.index))
        if a is None:
            a = PLAN.get((where, self.index))
        return a

    def before(self):
        LOG.append(('before', self.symbol, self.index, self.time, self.position.qty, self.position.entry_price,
                    self.balance))

    def should_long(self):
        a = self._act('entry')
        return bool(a and a['side'] == 'long')

    def should_short(self):
        a = self._act('entry')
        return bool(a and a['side'] == 'short')

    def go_long(self):
        a = self._act('entry')
        self.buy = a['entries'](self) if callable(a['entries']) else a['entries']
        if a.get('sl'):
            self.stop_loss = a['sl']
        if a.get('tp'):
            self.take_profit = a['tp']

    def go_short(self):
        a = self._act('entry')
        self.sell = a['entries'](self) if callable(a['entries']) else a['entries']
        if a.get('sl'):
            self.stop_loss = a['sl']
        if a.get('tp'):
            self.take_profit = a['tp']

    def should_cancel_entry(self):
        a = self._act('cancel')
        return bool(a)

    def update_position(self):
        a = self._act('update')
        if a:
            a(self)

    def on_open_position(self, order):
        LOG.append(('open', self.symbol, self.time, order.price, order.qty, self.position.qty, self.position.entry_price))
        h = PLAN.get('on_open')
        if h:
            h(self, order)

    def on_increased_position(self, order):
        LOG.append(('inc', self.symbol, self.time, order.price, order.qty, self.position.qty, self.position.entry_price))
        h = PLAN.get('on_inc')
        if h:
            h(self, order)

    def on_reduced_position(self, order):
        LOG.append(('red', self.symbol, self.time, order.price, order.qty, self.position.qty, self.position.entry_price))
        h = PLAN.get('on_red')
        if h:
            h(self, order)

    def on_close_position(self, order):
        LOG.append(('close', self.symbol, self.time, order.price, order.qty, order.type, order.reduce_only, id(order)))
        h = PLAN.get('on_close')
        if h:
            h(self, order)

    def terminate(self):
        STATE.setdefault('total_liquidations', store.app.total_liquidations)
        STATE['total_liquidations'] = store.app.total_liquidations
        STATE.setdefault('final', {})[self.symbol] = (self.balance, self.position.qty)
        STATE['trades'] = [
            dict(type=t.type, qty=t.qty, entry=t.entry_price, exit=t.exit_price, pnl=t.pnl, fee=t.fee,
                 opened_at=t.opened_at, closed_at=t.closed_at, symbol=t.symbol, n_orders=len(t.orders))
            for t in store.completed_trades.trades]


_orig_check = bm._check_for_liquidations
_orig_exec = Order.execute


def _wrapped_check(candle, exchange, symbol, last_1m_candle=None):
    p = selectors.get_position(exchange, symbol)
    pre = None
    if p is not None:
        ex = p.exchange
        pre = dict(qty=p.qty, entry=p.entry_price, mode=p.mode, lev=getattr(ex, 'futures_leverage', None),
                   wallet=ex.assets[ex.settlement_currency], liqs=store.app.total_liquidations,
                   liq=p.liquidation_price, bk=p.bankruptcy_price, fee=ex.fee_rate,
                   active=[o for o in store.orders.get_orders(exchange, symbol) if o.is_active],
                   time=store.app.time)
    STATE['in_check'] = True
    try:
        _orig_check(candle, exchange, symbol, last_1m_candle)
    finally:
        STATE['in_check'] = False
    if p is not None:
        ex = p.exchange
        post = dict(qty=p.qty, wallet=ex.assets[ex.settlement_currency], liqs=store.app.total_liquidations,
                    active=[o for o in store.orders.get_active_orders(exchange, symbol) if o.is_active]
                           + [o for o in pre['active'] if o.is_active],
                    pending=list(store.orders.to_execute))
        CHECKS.append(dict(symbol=symbol, candle=np.array(candle, dtype=float).copy(), pre=pre, post=post))


def _wrapped_exec(self, silent=False):
    if not (self.is_canceled or self.is_executed):
        p = selectors.get_position(self.exchange, self.symbol)
        EXECS.append(dict(symbol=self.symbol, time=store.app.time, price=self.price, qty=self.qty, type=self.type,
                          reduce_only=self.reduce_only, in_check=STATE.get('in_check', False),
                          pos_before=p.qty if p else None, oid=id(self)))
    return _orig_exec(self, silent)


bm._check_for_liquidations = _wrapped_check
Order.execute = _wrapped_exec


def run(candles_by_symbol, plan, leverage=2, mode='isolated', typ='futures', fee=0.0, balance=10_000,
        timeframe='1m', fast=False, data_routes=None, warmup=None):
    PLAN.clear(); PLAN.update(plan)
    LOG.clear(); CHECKS.clear(); EXECS.clear(); STATE.clear()
    cfg = {'starting_balance': balance, 'fee': fee, 'type': typ, 'futures_leverage': leverage,
           'futures_leverage_mode': mode, 'exchange': EX, 'warm_up_candles': 0}
    routes = [{'exchange': EX, 'strategy': PlanStrategy, 'symbol': s, 'timeframe': (timeframe[s] if isinstance(timeframe, dict) else timeframe)}
              for s in candles_by_symbol if not (data_routes and s in [d['symbol'] for d in data_routes] and False)]
    candles = {jh.key(EX, s): {'exchange': EX, 'symbol': s, 'candles': c} for s, c in candles_by_symbol.items()}
    res = backtest(cfg, routes, data_routes or [], candles, fast_mode=fast)
    return res


def audit(leverage, mode, typ, tol=1e-9):
    """Compare every liquidation check against the property text. Returns list of problems."""
    problems = []
    for k, c in enumerate(CHECKS):
        pre, post, cd = c['pre'], c['post'], c['candle']
        hi, lo = cd[3], cd[4]
        is_open = pre['qty'] != 0
        expect = False
        if is_open and typ == 'futures' and mode == 'isolated':
            e = pre['entry']
            if pre['qty'] > 0:
                liq = e * (1 - 1 / leverage + 0.004)
                bk = e * (1 - 1 / leverage)
            else:
                liq = e * (1 + 1 / leverage - 0.004)
                bk = e * (1 + 1 / leverage)
            if leverage > 1:
                lo_b, hi_b = (bk, e) if pre['qty'] > 0 else (e, bk)
                if not (lo_b < liq < hi_b):
                    problems.append((k, 'liq not strictly between', liq, bk, e))
            if abs(liq - pre['liq']) > tol * max(1, abs(liq)):
                problems.append((k, 'liq price differs from formula', liq, pre['liq']))
            expect = lo <= liq <= hi
        if expect:
            if post['qty'] != 0:
                problems.append((k, 'not liquidated', pre, cd))
                continue
            loss = pre['wallet'] - post['wallet']
            want = abs(pre['qty']) * pre['entry'] / leverage + pre['fee'] * abs(pre['qty']) * bk
            if abs(loss - want) > 1e-7 * abs(want) + 4e-16 * abs(pre['wallet']) * 8:
                problems.append((k, 'wrong loss', loss, want))
            if post['liqs'] != pre['liqs'] + 1:
                problems.append((k, 'liq count', pre['liqs'], post['liqs']))
            left = [o for o in pre['active'] if o.is_active]
            if left:
                problems.append((k, 'resting orders survive', [(o.side, o.type, o.qty, o.price) for o in left]))
        else:
            if post['qty'] != pre['qty'] or post['liqs'] != pre['liqs'] or abs(post['wallet'] - pre['wallet']) > 0:
                problems.append((k, 'spurious change in check', pre, post, cd))
    # fills inside the check must be the liquidation fill at bankruptcy price
    for e in EXECS:
        if e['in_check']:
            pass
    return problems
