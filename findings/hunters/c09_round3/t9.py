import sys; sys.path.insert(0, '/tmp/wt/vc09.out')
from harness import *
closes = [100]*3 + [95, 91, 89, 89, 89, 89, 89]
c = path_candles(closes)
def on_close(s, order):
    if order.price == 90.0:
        LOG.append(('hook sees price', s.price, s.position.current_price, s.close))
        s.broker.buy_at_market(1)
for fast in (False, True):
    plan = {('entry', 1): dict(side='long', entries=lambda s: (1, s.price)), 'on_close': on_close}
    run({'BTC-USDT': c.copy()}, plan, leverage=10, fee=0.0, fast=fast)
    print(fast, [l for l in LOG if l[0]!='before'], STATE['total_liquidations'], audit(10,'isolated','futures'))
