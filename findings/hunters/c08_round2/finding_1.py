"""
C08 finding 1 (normal simulator, fast_mode=False).

A take-profit that a strategy declares a hair (<= 0.015 %) above its entry price is submitted, at the moment the
entry fills inside the minute, as a MARKET order that carries the *requested* price (Broker.reduce_position_at),
not the price the path is at.  _simulate_price_change_effect only fills active orders whose price lies inside the
REMAINING part of the candle, so when the rest of the path never comes back to that price the order is left
pending and is executed after the minute is over - at a price the path never visited after the entry fill.

Candle (falling): open 100, high 101, low 95, close 96  -> path 100 -> 101 -> 95 -> 96
Entry: LIMIT buy @ 99 (reached on the way down from 101).  Path after that fill: 99 -> 95 -> 96 (never above 99).
Reaction order: take-profit @ 99.01 created by the fill of the entry.
Property C08: "an order created in reaction to a fill can only fill on the part of the path after that fill".
"""
import sys
import warnings

warnings.filterwarnings('ignore')
import numpy as np
import jesse.helpers as jh
from jesse import research
from jesse.strategies import Strategy

EX, SYM, T0 = 'Sandbox', 'BTC-USDT', 1546300800000
FILLS = []
TP = [None]


class Scalper(Strategy):
    def should_long(self):
        return self.index == 0

    def should_cancel_entry(self):
        return False

    def go_long(self):
        self.buy = 1, 99.0            # LIMIT entry below the current price (100)
        self.take_profit = 1, TP[0]   # exit target, declared together with the entry
        self.stop_loss = 1, 90.0      # far away, never touched

    def _note(self, order, what):
        c = self.current_candle
        minute = int((c[0] - T0) // 60000)
        FILLS.append(dict(what=what, minute=minute, order_type=order.type, fill_price=float(order.price),
                          price_seen_by_hook=float(self.price), candle_low=float(c[4]), candle_high=float(c[3])))

    def on_open_position(self, order):
        self._note(order, 'entry')

    def on_close_position(self, order):
        self._note(order, 'exit')


def run(tp):
    TP[0] = tp
    FILLS.clear()
    rows = [
        [0, 100, 100, 100, 100, 1],   # minute 0: flat, the strategy places its orders at its end
        [1, 100, 96, 101, 95, 1],     # minute 1: ts, open, close, high, low  -> path 100 -> 101 -> 95 -> 96
        [2, 96, 96, 96, 96, 1],       # minute 2: flat at 96
    ]
    arr = np.array(rows, dtype=float)
    arr[:, 0] = T0 + arr[:, 0] * 60000
    config = {'starting_balance': 100000, 'fee': 0, 'type': 'futures', 'futures_leverage': 1,
              'futures_leverage_mode': 'cross', 'exchange': EX, 'warm_up_candles': 0}
    routes = [{'exchange': EX, 'strategy': Scalper, 'symbol': SYM, 'timeframe': '1m'}]
    candles = {jh.key(EX, SYM): {'exchange': EX, 'symbol': SYM, 'candles': arr}}
    research.backtest(config, routes, [], candles, fast_mode=False)
    return [dict(f) for f in FILLS]


print('minute 1 candle: open 100, high 101, low 95, close 96 (falling) -> path 100 -> 101 -> 95 -> 96')
print('entry LIMIT buy @ 99 fills on the way down; the path after that fill is 99 -> 95 -> 96\n')

control = run(99.05)   # 0.05 % above the entry: an ordinary LIMIT exit
print('control, take-profit @ 99.05:')
for f in control:
    print('   ', f)
control_exit_in_minute_1 = [f for f in control if f['what'] == 'exit' and f['minute'] == 1]
print('    -> exit filled in minute 1:', bool(control_exit_in_minute_1), '(required: no, 99.05 is never reached again)\n')

observed = run(99.01)  # 0.0101 % above the entry
print('take-profit @ 99.01:')
for f in observed:
    print('   ', f)
bad = [f for f in observed if f['what'] == 'exit' and f['minute'] == 1 and f['fill_price'] > 99.0]

print()
print('property requires: a reaction order only fills on the part of the path after the fill that created it;')
print('                   99 -> 95 -> 96 never reaches 99.01, so the exit must not fill at 99.01 in minute 1')
print('                   (as in the control run; or, read as a market order, fill at once at the path price 99.0).')
if bad and not control_exit_in_minute_1:
    f = bad[0]
    print(f"observed: the exit filled in minute 1 at {f['fill_price']} while the path was at "
          f"{f['price_seen_by_hook']} (the hook sees price {f['price_seen_by_hook']}, candle low {f['candle_low']}): "
          "a winning trade although the price only fell after the entry.")
    print('FAIL: a reaction order priced within 0.015% of the fill price is filled after the minute at a price '
          'the path never reached after that fill')
    sys.exit(1)
print('OK: not reproduced')
sys.exit(0)
