from jesse.research import backtest
from jesse.strategies import Strategy
from jesse.factories import candles_from_close_prices
from jesse.store import store
out = {}
class S(Strategy):
    def should_long(self): return self.index == 0
    def go_long(self):
        self.buy = 2, self.price
        self.take_profit = 1, self.price + 10      # partial take-profit (1 of 2)
        self.stop_loss = 2, self.price - 10        # full-size stop stays resting (reduce-only)
    def should_cancel_entry(self): return False
    def on_close_position(self, order):
        out['trades'] = [(t.qty, t.entry_price, t.exit_price, t.pnl) for t in store.completed_trades.trades]
        out['wallet'] = self.balance
prices = [100, 101, 111, 105, 95, 88, 88, 88]
c = candles_from_close_prices(prices)
cfg = {'starting_balance': 10000, 'fee': 0, 'type': 'futures', 'futures_leverage': 2, 'futures_leverage_mode': 'cross', 'exchange': 'Sandbox', 'warm_up_candles': 0}
routes = [{'exchange': 'Sandbox', 'strategy': S, 'symbol': 'BTC-USDT', 'timeframe': '1m'}]
res = backtest(cfg, routes, [], {'Sandbox-BTC-USDT': {'exchange': 'Sandbox', 'symbol': 'BTC-USDT', 'candles': c}})
print(out)
print('net_profit', res['metrics']['net_profit'], 'finishing_balance', res['metrics']['finishing_balance'], '(wallet change', res['metrics']['finishing_balance'] - 10000, ')')
