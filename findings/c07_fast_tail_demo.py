"""fast simulator with a session length that is not a multiple of the chunk step (5m route, 12 one-minute candles).
Unrepaired tree: ValueError 'Sent only 2 candles but 5 is required'; repaired: same fills / candles as the normal simulator."""
import numpy as np
from jesse.research import backtest
from jesse.strategies import Strategy
from jesse.store import store

def run(fast):
    log = []
    class S(Strategy):
        def before(self):
            log.append(('step', self.index, len(self.get_candles('Sandbox', 'BTC-USDT', '1m')), len(self.candles), float(self.price)))
        def should_long(self): return self.index == 1
        def go_long(self): self.buy = 1, 96
        def should_cancel_entry(self): return False
        def on_open_position(self, order): log.append(('open', float(order.price), int(self.time)))
        def terminate(self):
            log.append(('end', len(self.get_candles('Sandbox', 'BTC-USDT', '1m')), len(self.candles), [float(x) for x in self.candles[-1]], float(self.position.qty)))
    ts0 = 1609459200000
    px = [(100, 100, 101, 99)] * 10 + [(100, 97, 101, 95), (97, 98, 99, 96.5)]
    c = np.array([[ts0 + i * 60000, o, cl, h, l, 10] for i, (o, cl, h, l) in enumerate(px)], dtype=float)
    cfg = {'starting_balance': 10000, 'fee': 0, 'type': 'futures', 'futures_leverage': 2, 'futures_leverage_mode': 'cross', 'exchange': 'Sandbox', 'warm_up_candles': 0}
    routes = [{'exchange': 'Sandbox', 'strategy': S, 'symbol': 'BTC-USDT', 'timeframe': '5m'}]
    backtest(cfg, routes, [], {'Sandbox-BTC-USDT': {'exchange': 'Sandbox', 'symbol': 'BTC-USDT', 'candles': c}}, fast_mode=fast)
    return log

try:
    a, b = run(False), run(True)
except Exception as e:
    print('FAIL: fast simulator raised', type(e).__name__, e); raise SystemExit(1)
if a != b:
    print('FAIL: normal', a, '\n      fast  ', b); raise SystemExit(1)
print(a); print('PASS')
