# demonstration: after cancelling a resting sell, an oversell is accepted
import jesse.helpers as jh
from jesse.config import config
from jesse.routes import router
from jesse.store import store
from jesse.enums import exchanges, timeframes, sides, order_types
from jesse.models import Order
config['app']['trading_mode']='backtest'
config['env']['exchanges'][exchanges.SANDBOX]['type']='spot'
config['env']['exchanges'][exchanges.SANDBOX]['balance']=10000
jh.CACHED_CONFIG.clear()
router.initiate([{'exchange': exchanges.SANDBOX,'symbol':'BTC-USDT','timeframe':'1m','strategy':object}], [])
store.reset(True)
e = store.exchanges.storage[exchanges.SANDBOX]
print(type(e).__name__)
e.assets['BTC'] = 2.0
def mk(side, typ, qty, price):
    return Order({'id': jh.generate_unique_id(),'symbol':'BTC-USDT','exchange':exchanges.SANDBOX,'side':side,'type':typ,'reduce_only':False,'qty':qty,'price':price})
o1 = mk(sides.SELL, order_types.LIMIT, -1, 110)
o2 = mk(sides.SELL, order_types.LIMIT, -1, 120)
print('limit sum', e.limit_orders_sum)
o1.cancel()
print('after cancel limit sum', e.limit_orders_sum, '(expected 1.0)')
try:
    o3 = mk(sides.SELL, order_types.LIMIT, -2, 130)   # total resting sells = 1 + 2 = 3 > base 2 -> must be rejected
    print('ACCEPTED oversell: resting sells', 3, 'base', e.assets['BTC'], 'limit sum', e.limit_orders_sum)
except Exception as ex:
    print('rejected', type(ex).__name__)
