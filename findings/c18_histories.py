import numpy as np
from jesse.libs import DynamicNumpyArray
def run(bucket, drop_at, ops):
    a = DynamicNumpyArray((bucket, 2), drop_at=drop_at); k = 0; model = []
    for op in ops:
        try:
            if op == 'a': k += 1; a.append(np.array([k, k])); model.append(k)
            elif op[0] == 'm':
                n = int(op[1:]); a.append_multiple(np.array([[k + j + 1, k + j + 1] for j in range(n)])); model += [k + j + 1 for j in range(n)]; k += n
            elif op == 'd0': a.delete(0, axis=0); del model[0]
            elif op == 'dl': a.delete(len(model) - 1, axis=0); del model[-1]
        except Exception as e:
            return f'{op} raises {type(e).__name__}: {e}'
        if drop_at and model and len(model) % drop_at == 0 and op[0] in 'am': del model[:drop_at // 2]
        got = [int(x[0]) for x in a[:]]
        if got != model: return f'after {op}: rows {got} != list model {model}'
    return 'ok'
print('bucket 2 drop 4  a m3        ->', run(2, 4, ['a', 'm3']))
print('bucket 2         a m3 a d0 a ->', run(2, None, ['a', 'm3', 'a', 'd0', 'a']))
print('bucket 3         m2 m3 a a a ->', run(3, None, ['m2', 'm3', 'a', 'a', 'a']))
