import numpy as np
import jesse.helpers as jh
from jesse.config import config
from jesse.routes import router
from jesse.store import store
config['app']['trading_mode']='backtest'
router.initiate([{'exchange':'Sandbox','symbol':'BTC-USDT','timeframe':'1m','strategy':object}], [])
store.reset(True)
store.candles.init_storage(100)
t0=1600000020000//60000*60000
mk=lambda k:[t0+k*60000,1,1,1,1,1]
store.candles.add_multiple_1m_candles(np.array([mk(k) for k in range(4)],dtype=float),'Sandbox','BTC-USDT')
store.candles.add_multiple_1m_candles(np.array([mk(k) for k in (3,4,5)],dtype=float),'Sandbox','BTC-USDT')
c=store.candles.get_candles('Sandbox','BTC-USDT','1m')
print('stored minutes', [int((x[0]-t0)//60000) for x in c], 'expected [0..5]')
