import numpy as np
from jesse.libs import DynamicNumpyArray
a = DynamicNumpyArray((3, 2))
a.append(np.array([1, 1])); a.append(np.array([2, 2]))
model = [[1, 1], [2, 2]]
print('arr[-1:]  ->', a[-1:].tolist(), ' list model:', model[-1:])
print('arr[:-5]  ->', a[:-5].tolist(), ' list model:', model[:-5])
try:
    a[:] = np.array([[7, 7], [8, 8]]); print('arr[:] = x ok', a[:].tolist())
except Exception as e:
    print('arr[:] = x raises', type(e).__name__)
