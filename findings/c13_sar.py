import numpy as np, warnings; warnings.filterwarnings('ignore')
import jesse.indicators as ta
from jesse.factories import candles_from_close_prices
c = candles_from_close_prices([100, 101, 102, 103, 104, 105])
a = ta.sar(c, sequential=True)[0]
c2 = c.copy(); c2[1, 3] = c2[0, 3] - 5      # change only candle 1 (its high)
b = ta.sar(c2, sequential=True)[0]
print('sar[0] with original candle 1:', a, ' with changed candle 1:', b, '-> value 0 depends on candle 1' if a != b else 'same')
