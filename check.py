#!/venv/bin/python
"""Entry point: /venv/bin/python /verif/check.py <ID> [--tier quick|thorough] [--replay <file>]

Exit 0: every rule instance held (or is a listed known finding).
Exit 1: at least one unlisted violation (VIOLATION lines printed).
Exit 2: ANALYSIS-ERROR (anchor vanished, construct outside the analysable
        fragment, instance count below floor, internal error) - never a violation.
"""
import importlib
import json
import os
import sys
import traceback
import warnings

HERE = os.path.dirname(os.path.abspath(__file__))
sys.path.insert(0, HERE)
warnings.filterwarnings("ignore")


def main(argv):
    if len(argv) < 2:
        print("usage: check.py <ID> [--tier quick|thorough] [--replay file]")
        return 2
    pid = argv[1].upper()
    tier = os.environ.get("VERIF_TIER", "quick")
    replay = None
    i = 2
    while i < len(argv):
        if argv[i] == "--tier" and i + 1 < len(argv):
            tier = argv[i + 1]
            i += 2
        elif argv[i] == "--replay" and i + 1 < len(argv):
            replay = argv[i + 1]
            i += 2
        else:
            i += 1
    if tier not in ("quick", "thorough"):
        tier = "quick"
    try:
        seed = int(os.environ.get("VERIF_SEED", "0"))
    except ValueError:
        seed = 0
    if replay:
        try:
            with open(replay) as f:
                print(json.dumps(json.load(f), indent=1))
        except OSError as e:
            print(f"cannot read replay file: {e}")
        # a replay re-runs the (deterministic) check; the file names the construct to look at
    from vlib.loader import Repo, AnalysisError
    from vlib.report import Report
    try:
        mod = importlib.import_module(f"props.{pid.lower()}")
    except ModuleNotFoundError:
        print(f"ANALYSIS-ERROR property={pid}: no check implemented")
        return 2
    try:
        repo = Repo()
        rep = Report(pid, tier, seed)
        mod.run(repo, rep, tier)
        return rep.finish(repo.stats())
    except AnalysisError as e:
        print(f"ANALYSIS-ERROR property={pid}: {e}")
        return 2
    except Exception as e:  # internal errors must never look like violations
        print(f"ANALYSIS-ERROR property={pid}: internal error {type(e).__name__}: {e}")
        traceback.print_exc()
        return 2


if __name__ == "__main__":
    sys.exit(main(sys.argv))
