#!/bin/bash
# usage: mut.sh <file rel> <python-regex-old> <new> <ID...>   -- applies a textual edit on a scratch copy and runs checks
set -e
F="$1"; OLD="$2"; NEW="$3"; shift 3
rm -rf /tmp/mut; mkdir -p /tmp/mut
rsync -a --include='*/' --include='*.py' --exclude='*' /repo/jesse /tmp/mut/
python3 - "$F" "$OLD" "$NEW" <<'PY'
import sys,re
f,old,new=sys.argv[1:4]
p='/tmp/mut/'+f
s=open(p).read()
if old not in s:
    print("PATTERN NOT FOUND"); sys.exit(3)
s=s.replace(old,new,1)
open(p,'w').write(s)
import ast; ast.parse(s)
PY
for id in "$@"; do VERIF_REPO=/tmp/mut /venv/bin/python /verif/check.py $id 2>&1 | grep -v "^WARNING" | tail -4; done
rm -rf /tmp/mut
