#!/bin/bash
# usage: try.sh <seed-name> <ID...> : runs the checks on a scratch copy of /repo's python sources with the seed's patch applied
N="$1"; shift
D=$(mktemp -d /tmp/tryseed-XXXX)
rsync -a --include='*/' --include='*.py' --exclude='*' /repo/jesse $D/
patch -p1 -s -d $D -i /verif/seeded/$N/patch.diff || echo "PATCH FAILED"
for id in "$@"; do VERIF_REPO=$D VERIF_EVIDENCE_DIR=$D/_ev /venv/bin/python /verif/check.py $id $TIER 2>&1 | grep -v "^WARNING" | grep -E "VIOLATION|rule=|ANALYSIS|OK:|FAIL" | cut -c1-${W:-330} | head -${LINES_MAX:-8}; done
rm -rf $D
