#!/bin/bash
# usage: intake_seed.sh <round-dir> <ID> <name> [check ids...] : copies <round-dir>/<ID>/out to /verif/seeded/<name>, confirms it in a
# fresh worktree (tools/confirm_seed.sh) and runs the named checks (default: the property's own) on a scratch copy with the patch
RD="$1"; ID="$2"; NAME="$3"; shift 3
CHECKS="${@:-$ID}"
OUT=/verif/seeded/$NAME
mkdir -p $OUT
cp $RD/$ID/out/patch.diff $RD/$ID/out/demo.py $RD/$ID/out/meta.json $OUT/ || exit 7
( /verif/tools/confirm_seed.sh $ID $NAME ) &
D=$(mktemp -d /tmp/tryseed-XXXX)
rsync -a --include='*/' --include='*.py' --exclude='*' /repo/jesse $D/
patch -p1 -s -d $D -i $OUT/patch.diff || echo "PATCH FAILED on scratch copy"
for id in $CHECKS; do
  VERIF_REPO=$D VERIF_EVIDENCE_DIR=$D/_ev /venv/bin/python /verif/check.py $id 2>&1 | grep -v "^WARNING" | grep -E "VIOLATION|rule=|ANALYSIS|^OK|exit" | cut -c1-300 | head -8
  echo "[$id exit=${PIPESTATUS[0]}]"
done
rm -rf $D
wait
