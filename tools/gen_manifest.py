#!/venv/bin/python
"""Regenerate /verif/MANIFEST.json from the per-property CLAIM tables in props/*.py
(and the NOT_APPLICABLE table below).  Validates against the schema when jsonschema is available."""
import importlib
import json
import os
import sys

HERE = os.path.dirname(os.path.dirname(os.path.abspath(__file__)))
sys.path.insert(0, HERE)

ALL = [f"C{i:02d}" for i in range(1, 21)]

# properties that are not claimed: reason (kept current by hand)
NOT_APPLICABLE = {
}

UNDER_CONSTRUCTION = "check under construction in this session; not claimed until its static rules exist and are silent on the unchanged tree"


def main():
    checks = []
    na = []
    for pid in ALL:
        try:
            mod = importlib.import_module(f"props.{pid.lower()}")
            claim = getattr(mod, "CLAIM", None)
        except ModuleNotFoundError:
            claim = None
        if pid in NOT_APPLICABLE:
            na.append({"property_id": pid, "reason": NOT_APPLICABLE[pid]})
            continue
        if claim is None:
            na.append({"property_id": pid, "reason": UNDER_CONSTRUCTION})
            continue
        checks.append({
            "property_id": pid,
            "quick_cmd": f"/venv/bin/python /verif/check.py {pid} --tier quick",
            "thorough_cmd": f"/venv/bin/python /verif/check.py {pid} --tier thorough",
            "evidence_file": f"/verif/evidence/{pid}.json",
            "replay_cmd_template": f"/venv/bin/python /verif/check.py {pid} --replay {{path}}",
            "engine": claim.get("engine", "static"),
            "level_claimed": {
                "category": "other",
                "text": claim["text"],
                "design_ref": f"DESIGN.md section 3, {pid}",
            },
            "level_note": claim["note"],
            "technique": claim["technique"],
        })
    manifest = {
        "version": 1,
        "setup_cmd": "true",
        "hooks": {
            "guard": "JESSE_VERIF",
            "enable": "no hooks are needed: the checks parse /repo's working tree with ast and never import or run it",
            "baseline_off_cmd": "cd /repo && /venv/bin/python -m pytest -ra -q -p no:cacheprovider --timeout=900 --continue-on-collection-errors",
            "source_commits": [],
            "add_only": True,
        },
        "engines": [
            {"name": "absint", "path": "vlib/absint.py", "serves_properties": ["C02", "C03", "C04", "C05", "C06", "C08", "C09", "C10", "C17", "C19", "C20"],
             "kind_free_text": "abstract interpreter over /repo's AST: exact rational-function values, finite abstract cases (weak orderings / sign patterns / enum environments) enumerated exhaustively, forks witnessed by samples; no solver, no import of /repo"},
            {"name": "traces", "path": "vlib/traces.py", "serves_properties": ["C01", "C02", "C05", "C06", "C09", "C12", "C16", "C20"],
             "kind_free_text": "syntax-directed path/trace enumeration per function (must-call, ordering, exactly-once, guard dominance), interprocedural by inlining resolved callees"},
            {"name": "indicators", "path": "vlib/indic.py", "serves_properties": ["C13", "C14", "C15"],
             "kind_free_text": "dependence (lead/back) abstract interpretation of numpy/numba indicator kernels"},
            {"name": "indicator-ranges", "path": "vlib/indic_range.py", "serves_properties": ["C15"],
             "kind_free_text": "interval abstract interpretation, order prover and dimensional analysis over the extracted expression DAGs (ranges, band order, homogeneity)"},
            {"name": "effects", "path": "vlib/purity.py", "serves_properties": ["C13", "C14", "C15", "C16", "C19"],
             "kind_free_text": "may-alias / effect analysis over a call graph: in-place modification of the caller's array, stores into module-level state, memo keys that are projections of their inputs"},
            {"name": "memo-invalidation", "path": "vlib/memo.py", "serves_properties": ["C03", "C04", "C05", "C06", "C07", "C09", "C18"],
             "kind_free_text": "per-class invalidation completeness of memo and derived fields: every writer of what a memo was computed from also writes the memo"},
            {"name": "index-flow", "path": "vlib/idxflow.py", "serves_properties": ["C01", "C07"],
             "kind_free_text": "interprocedural affine index / provenance analysis of the simulators with Fourier-Motzkin discharge of bounds"},
            {"name": "mini-sessions", "path": "vlib/minisession.py", "serves_properties": ["C01", "C02", "C03", "C05", "C06", "C07", "C12", "C16"],
             "kind_free_text": "both simulator functions interpreted whole on small symbolic sessions with recorders for matcher, stores and strategies"},
        ],
        "checks": checks,
        "not_applicable": na,
        "notes": "Static analysis only. Exit 0 = held (or listed known finding), 1 = VIOLATION, 2 = ANALYSIS-ERROR (anchor vanished / construct outside analysable fragment). Known findings: /verif/known_findings.json.",
    }
    path = os.path.join(HERE, "MANIFEST.json")
    with open(path, "w") as f:
        json.dump(manifest, f, indent=1)
    try:
        import jsonschema
        with open("/root/.vp/MANIFEST.schema.json") as f:
            schema = json.load(f)
        jsonschema.validate(manifest, schema)
        print("MANIFEST.json valid;", len(checks), "checks,", len(na), "not applicable")
    except ImportError:
        print("MANIFEST.json written (jsonschema not available for validation);", len(checks), "checks")


if __name__ == "__main__":
    main()
