#!/bin/bash
# usage: confirm_seed.sh <wt-id> <seed-dir-name> : confirms a seeded change in a fresh scratch worktree of /repo
ID="$1"; NAME="$2"; OUT=/verif/seeded/$NAME
WT=/tmp/confirm/$NAME
rm -rf $WT; mkdir -p /tmp/confirm
git -C /repo worktree add -q --detach $WT HEAD || exit 9
cd $WT
R0=$(PYTHONPATH=$WT /venv/bin/python $OUT/demo.py 2>&1 | tail -1); S0=$?
S0=$(PYTHONPATH=$WT /venv/bin/python $OUT/demo.py >/dev/null 2>&1; echo $?)
git apply $OUT/patch.diff || { echo "patch does not apply"; git -C /repo worktree remove --force $WT; exit 8; }
S1=$(PYTHONPATH=$WT /venv/bin/python $OUT/demo.py >/dev/null 2>&1; echo $?)
R1=$(PYTHONPATH=$WT /venv/bin/python $OUT/demo.py 2>&1 | tail -1)
T=$(PYTHONPATH=$WT /venv/bin/python -m pytest -q -p no:cacheprovider --timeout=900 2>&1 | tail -1)
cd /; git -C /repo worktree remove --force $WT
echo "$NAME: demo_unchanged_exit=$S0 ($R0) | demo_changed_exit=$S1 (${R1:0:160}) | tests: $T"
python3 - "$OUT" "$S0" "$S1" "$T" <<'PY'
import json,sys
out,s0,s1,t=sys.argv[1:5]
p=out+'/meta.json'
try: m=json.load(open(p))
except Exception: m={}
m['confirmed_by_us']={'demo_unchanged_exit':int(s0),'demo_changed_exit':int(s1),'tests_with_change':t,
  'how':'fresh scratch worktree of /repo HEAD under /tmp/confirm; demo.py run before and after git apply patch.diff; full pytest suite run with the patch applied; worktree removed afterwards'}
json.dump(m,open(p,'w'),indent=1)
PY
