#!/bin/bash
# usage: try_seed.sh <patch.diff> <ID...> : applies the patch to /repo, runs the checks, reverts
P="$1"; shift
cd /repo || exit 9
if ! git diff --quiet; then echo "REPO DIRTY"; exit 9; fi
git apply "$P" || { echo "PATCH DOES NOT APPLY"; exit 8; }
for id in "$@"; do /venv/bin/python /verif/check.py $id 2>&1 | grep -v "^WARNING" | grep -E "VIOLATION|rule=|OK:|FAIL:|ANALYSIS" | cut -c1-260 | head -6; done
git checkout -- . 
git diff --quiet && echo "[reverted]"
